#!/bin/sh
# Build the offline overlay venv used by every check: /venv's site-packages (torch, numpy, plinio deps)
# + z3-solver, crosshair-tool, cvc5, jsonschema from the local wheelhouse. No network is used.
set -e
cd "$(dirname "$0")"
V=.venv
if [ ! -x "$V/bin/python" ] || ! "$V/bin/python" -c "import z3, crosshair, jsonschema, torch" >/dev/null 2>&1; then
  rm -rf "$V"
  /venv/bin/python -m venv "$V"
  echo "import site; site.addsitedir('/venv/lib/python3.12/site-packages')" > "$V/lib/python3.12/site-packages/_base.pth"
  PIP_NO_INDEX=1 "$V/bin/pip" install -q --no-index --find-links /opt/veriftools/wheels z3-solver crosshair-tool cvc5 jsonschema >/dev/null
fi
"$V/bin/python" -c "import z3, crosshair, jsonschema, torch; print('verif venv ok: z3', z3.get_version_string(), 'torch', torch.__version__)"
