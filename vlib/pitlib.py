"""Program grammar and symbolic helpers for the PIT properties (C01, C04, C07, C08, C09, C11, C12, C17, C18)."""
import copy
import itertools
import random
from fractions import Fraction

import numpy as np
import torch
import torch.nn as nn
import torch.nn.functional as F
import z3

import symtorch as st
from symtorch import SymTensor


# ---------------------------------------------------------------------------------------------------------------------
# exactly representable "generic" parameter values
# ---------------------------------------------------------------------------------------------------------------------
def dyadic_init(model, seed=0, den=16, lim=24, positive=False):
    """weights/biases: distinct-looking multiples of 1/den; BatchNorm: eps=0, var in {1/4,1,4}, dyadic mean/affine.
    Every float32 operation PLiNIO performs on these at conversion time (BN folding, copy_) is exact."""
    rng = random.Random(1000 + seed)
    with torch.no_grad():
        for m in model.modules():
            if isinstance(m, (nn.BatchNorm1d, nn.BatchNorm2d)):
                m.eps = 0.0
                n = m.num_features
                m.running_var.copy_(torch.tensor([rng.choice([0.25, 1.0, 4.0]) for _ in range(n)]))
                m.running_mean.copy_(torch.tensor([(rng.randint(-8, 0) if positive else rng.randint(-8, 8)) / 8 for _ in range(n)]))
                if m.affine:
                    m.weight.copy_(torch.tensor([rng.choice([0.5, 1.0, 2.0, 1.5] if positive else [0.5, 1.0, 2.0, -0.5, 1.5]) for _ in range(n)]))
                    m.bias.copy_(torch.tensor([(rng.randint(0, 8) if positive else rng.randint(-8, 8)) / 8 for _ in range(n)]))
            else:
                for name, p in m._parameters.items():
                    if p is None:
                        continue
                    vals = []
                    for _ in range(p.numel()):
                        k = 0
                        while k == 0:
                            k = rng.randint(1 if positive else -lim, lim)
                        vals.append(k / den)
                    p.copy_(torch.tensor(vals, dtype=p.dtype).reshape(p.shape))
    return model


def generic_bn(model, seed=0):
    """BatchNorm layers with eps > 0 of the same order as small running variances: 1/sqrt(var+eps) is then neither dyadic nor
    close to 1/(sqrt(var)+eps) or 1/sqrt(var); checks using it compare outputs up to a stated tolerance"""
    rng = random.Random(2000 + seed)
    with torch.no_grad():
        for m in model.modules():
            if isinstance(m, (nn.BatchNorm1d, nn.BatchNorm2d)):
                m.eps = 0.125
                m.running_var.copy_(torch.tensor([rng.choice([1 / 64, 1 / 16, 0.3]) for _ in range(m.num_features)]))
    return model


# ---------------------------------------------------------------------------------------------------------------------
# program grammar
# ---------------------------------------------------------------------------------------------------------------------
class T1(nn.Module):
    """pad -> Conv1d(cin, C, K, dilation=d0, stride=s) -> ReLU -> Conv1d(C, 2, 1) [-> tail]   (causal left padding)
    tail: '' | 'relu' (output reached through an activation) | 'add' (through a residual sum) | 'lsm' (log_softmax)"""

    def __init__(self, K=3, d0=1, s=1, C=2, cin=1, bias=True, tail=''):
        super().__init__()
        self.pad = nn.ConstantPad1d(((K - 1) * d0, 0), 0)
        self.c0 = nn.Conv1d(cin, C, K, dilation=d0, stride=s, bias=bias)
        self.c1 = nn.Conv1d(C, 2, 1)
        self.tail = tail
        if tail == 'add':
            self.c1b = nn.Conv1d(C, 2, 1)

    def forward(self, x):
        h = torch.relu(self.c0(self.pad(x)))
        y = self.c1(h)
        if self.tail == 'relu':
            y = torch.relu(y)
        elif self.tail == 'add':
            y = torch.relu(y + self.c1b(h))
        elif self.tail == 'lsm':
            y = F.log_softmax(y, dim=1)
        return y


class T2(nn.Module):
    """pad-Conv1d-BN-ReLU-pad-Conv1d(no bias)-BN-flatten-Linear-(BN)-ReLU-Linear"""

    def __init__(self, K0=3, K1=2, C0=2, C1=2, T=4, cin=1, lin_bn=True, H=3, s0=1):
        super().__init__()
        self.pad0 = nn.ConstantPad1d((K0 - 1, 0), 0)
        self.c0 = nn.Conv1d(cin, C0, K0, stride=s0)
        T = (T - 1) // s0 + 1
        self.bn0 = nn.BatchNorm1d(C0)
        self.pad1 = nn.ConstantPad1d((K1 - 1, 0), 0)
        self.c1 = nn.Conv1d(C0, C1, K1, bias=False)
        self.bn1 = nn.BatchNorm1d(C1)
        self.fc0 = nn.Linear(C1 * T, H)
        self.lin_bn = lin_bn
        if lin_bn:
            self.bn2 = nn.BatchNorm1d(H)
        self.fc1 = nn.Linear(H, 2)

    def forward(self, x):
        x = torch.relu(self.bn0(self.c0(self.pad0(x))))
        x = self.bn1(self.c1(self.pad1(x)))
        x = self.fc0(x.flatten(1))
        if self.lin_bn:
            x = self.bn2(x)
        return self.fc1(torch.relu(x))


class A1(nn.Module):
    """residual: c0(x), c1(x) share a masker through the add; c2 consumes relu(c0+c1)"""

    def __init__(self, K=3, C=2, cin=1, dw=False):
        super().__init__()
        self.pad0 = nn.ConstantPad1d((K - 1, 0), 0)
        self.pad1 = nn.ConstantPad1d((K - 1, 0), 0)
        self.c0 = nn.Conv1d(cin, C, K)
        self.c1 = nn.Conv1d(cin, C, K)
        self.dw = nn.Conv1d(C, C, 1, groups=C) if dw else None
        self.c2 = nn.Conv1d(C, 2, 1)

    def forward(self, x):
        y = torch.relu(self.c0(self.pad0(x)) + self.c1(self.pad1(x)))
        if self.dw is not None:
            y = torch.relu(self.dw(y))
        return self.c2(y)


class K1(nn.Module):
    """channel concat of tensors with origins given by `origins` in {'s' searchable conv, 'f' fixed (excluded) conv,
    'i' network input}; consumer is a searchable conv followed by the output conv"""

    def __init__(self, origins=('s', 's'), C=2, cin=2, K=1):
        super().__init__()
        self.origins = tuple(origins)
        self.branches = nn.ModuleList()
        tot = 0
        for i, o in enumerate(self.origins):
            if o == 'i':
                self.branches.append(nn.Identity())
                tot += cin
            else:
                c = C + (i % 2)   # different widths so that a mix-up of the constants is visible
                self.branches.append(nn.Conv1d(cin, c, 1))
                tot += c
        self.cons = nn.Conv1d(tot, C, K)
        self.pad = nn.ConstantPad1d((K - 1, 0), 0)
        self.out = nn.Conv1d(C, 2, 1)

    def forward(self, x):
        ts = []
        for o, b in zip(self.origins, self.branches):
            ts.append(b(x) if o == 'i' else torch.relu(b(x)))     # 'i': the input through nn.Identity (a distinct graph node per use)
        y = torch.cat(ts, dim=1)
        return self.out(torch.relu(self.cons(self.pad(y))))

    def fixed_names(self):
        return tuple(f'branches.{i}' for i, o in enumerate(self.origins) if o == 'f')


class K2(nn.Module):
    """time-axis concat of two searchable convs that must share the masker, then flatten -> Linear"""

    def __init__(self, C=2, cin=1, T=3, dim=2):
        super().__init__()
        self.a = nn.Conv1d(cin, C, 1)
        self.b = nn.Conv1d(cin, C, 1)
        self.fc = nn.Linear(C * 2 * T, 2)
        self.dim = dim

    def forward(self, x):
        y = torch.cat([torch.relu(self.a(x)), torch.relu(self.b(x))], dim=self.dim)
        return self.fc(y.flatten(1))


class D2(nn.Module):
    """Conv2d -> BN2d -> ReLU -> depthwise Conv2d -> pool -> flatten -> Linear   (H x W images)"""

    def __init__(self, C=2, cin=1, HW=3, pool='max', bn=True, k=2):
        super().__init__()
        self.c0 = nn.Conv2d(cin, C, k, padding=0)
        self.bn0 = nn.BatchNorm2d(C) if bn else nn.Identity()
        self.dw = nn.Conv2d(C, C, 1, groups=C)
        self.pool = {'max': nn.MaxPool2d(2), 'avg': nn.AvgPool2d(2), 'none': nn.Identity()}[pool]
        o = HW - k + 1
        if pool != 'none':
            o = o // 2
        self.fc = nn.Linear(C * o * o, 2)

    def forward(self, x):
        x = torch.relu(self.bn0(self.c0(x)))
        x = torch.relu(self.dw(x))
        x = self.pool(x)
        return self.fc(x.flatten(1))


class L1(nn.Module):
    """Linear -> BN1d -> ReLU -> Linear -> ReLU -> Linear"""

    def __init__(self, nin=3, H0=3, H1=2, bn=True):
        super().__init__()
        self.fc0 = nn.Linear(nin, H0)
        self.bn = nn.BatchNorm1d(H0) if bn else nn.Identity()
        self.fc1 = nn.Linear(H0, H1)
        self.fc2 = nn.Linear(H1, 2)

    def forward(self, x):
        return self.fc2(torch.relu(self.fc1(torch.relu(self.bn(self.fc0(x))))))


class R2(nn.Module):
    """a searchable layer invoked twice in forward, both times on tensors produced by the same searchable layer"""

    def __init__(self, C=2, K=2):
        super().__init__()
        self.inp = nn.Conv1d(1, C, 1)
        self.pad = nn.ConstantPad1d((K - 1, 0), 0)
        self.rep = nn.Conv1d(C, C, K)
        self.out = nn.Conv1d(C, 2, 1)

    def forward(self, x):
        x = torch.relu(self.inp(x))
        a = self.rep(self.pad(x))
        b = self.rep(self.pad(x + x))
        return self.out(torch.relu(a + b))


class R3(nn.Module):
    """a searchable layer invoked twice, the second time on its own output (weight-tied recurrence)"""

    def __init__(self, C=2, K=1):
        super().__init__()
        self.inp = nn.Conv1d(1, C, 1)
        self.rep = nn.Conv1d(C, C, K)
        self.out = nn.Conv1d(C, 2, 1)

    def forward(self, x):
        x = torch.relu(self.inp(x))
        x = torch.relu(self.rep(x))
        x = torch.relu(self.rep(x))
        return self.out(x)


FAMILIES = {'T1': T1, 'T2': T2, 'A1': A1, 'K1': K1, 'K2': K2, 'D2': D2, 'L1': L1, 'R2': R2, 'R3': R3}


def prog_id(spec):
    fam = spec['fam']
    def _fmt(v):
        if isinstance(v, (list, tuple)):
            return '+'.join(_fmt(x).replace('+', ':') if isinstance(x, (list, tuple)) else str(x) for x in v)
        return str(v)
    rest = ','.join(f"{k}={_fmt(v)}" for k, v in sorted(spec.items())
                    if k not in ('fam', 'id', 'tier', 'seed', 'selftest'))
    return f"{fam}({rest})"


def build_program(spec, seed=0, positive=False):
    """-> (nn.Module with dyadic generic weights, input shape without batch)"""
    fam = spec['fam']
    kw = {k: v for k, v in spec.items() if k not in ('fam', 'pit', 'id', 'tier', 'seed', 'selftest', 'T', 'exclude', 'bn_stats', 'after')}
    if fam in ('F1', 'K2', 'T2', 'H1') and 'T' in spec:
        kw['T'] = spec['T']
    if fam in ('K1', 'K3') and 'origins' in kw:
        kw['origins'] = tuple(kw['origins'])
    torch.manual_seed(seed)
    m = FAMILIES[fam](**kw)
    dyadic_init(m, seed, positive=positive)
    if spec.get('bn_stats') == 'generic':
        generic_bn(m, seed)
    if fam == 'T1':
        rf = (spec.get('K', 3) - 1) * spec.get('d0', 1) + 1
        shape = (spec.get('cin', 1), spec.get('T', rf + 2))
    elif fam == 'T2':
        shape = (spec.get('cin', 1), spec.get('T', 4))
    elif fam == 'A1':
        shape = (spec.get('cin', 1), spec.get('T', spec.get('K', 3) + 1))
    elif fam == 'K1':
        shape = (spec.get('cin', 2), spec.get('T', spec.get('K', 1) + 1))
    elif fam == 'K2':
        shape = (spec.get('cin', 1), spec.get('T', 3))
    elif fam == 'D2':
        shape = (spec.get('cin', 1), spec.get('HW', 3), spec.get('HW', 3))
    elif fam == 'L1':
        shape = (spec.get('nin', 3),)
    elif fam == 'R2':
        shape = (1, spec.get('T', spec.get('K', 2) + 1))
    elif fam == 'R3':
        shape = (1, spec.get('T', 2))
    elif fam == 'R4':
        shape = (1, spec.get('T', 4))
    elif fam in _SHAPES:
        shape = _SHAPES[fam](spec)
    else:
        raise KeyError(fam)
    return m, shape


def make_pit(spec, seed=0, positive=False, **pit_kw):
    from plinio.methods import PIT
    model, shape = build_program(spec, seed, positive)
    kw = dict(spec.get('pit', {}))
    kw.update(pit_kw)
    if spec['fam'] in ('K1', 'K3'):
        kw.setdefault('exclude_names', model.fixed_names())
    if spec.get('exclude') == 'name':
        kw.setdefault('exclude_names', ('b',))
    elif spec.get('exclude') == 'type':
        kw.setdefault('exclude_types', (nn.Linear,))
    model.eval()
    pit = PIT(model, input_shape=shape, **kw)
    # `after`: switches set after construction (another phase of the search: train_features / train_rf / train_dilation off, train_net_only(), ...)
    for name, val in spec.get('after', []):
        if val == 'call':
            getattr(pit, name)()
        else:
            setattr(pit, name, val)
    pit.eval()
    return pit, model, shape


# ---------------------------------------------------------------------------------------------------------------------
# symbolic masks
# ---------------------------------------------------------------------------------------------------------------------
MASKERS = (('out_features_masker', 'alpha'), ('timestep_masker', 'beta'), ('dilation_masker', 'gamma'))


def mask_params(pit, include_frozen_time=False):
    """list of (qualified name, masker module, param name, param) for every distinct architectural parameter"""
    from plinio.methods.pit.nn.module import PITModule
    from plinio.methods.pit.nn.timestep_masker import PITFrozenTimestepMasker
    from plinio.methods.pit.nn.dilation_masker import PITFrozenDilationMasker
    out, seen = [], set()
    for lname, layer in pit.seed.named_modules():
        if not isinstance(layer, PITModule):
            continue
        for mname, pname in MASKERS:
            masker = getattr(layer, mname, None)
            if masker is None or id(masker) in seen:
                continue
            seen.add(id(masker))
            if isinstance(masker, (PITFrozenTimestepMasker, PITFrozenDilationMasker)) and not include_frozen_time:
                continue
            out.append((f"{lname}.{pname}", masker, pname, masker._parameters[pname]))
    return out


def fresh_masks(pit, nonneg=False, ex=None, only=None):
    """-> (pairs for swapped_params, {qualified name: SymTensor})"""
    pairs, syms = [], {}
    for qn, masker, pname, p in mask_params(pit):
        if only is not None and not only(qn):
            continue
        s = SymTensor.fresh(qn.replace('.', '_'), tuple(p.shape))
        if nonneg and ex is not None:
            for v in s.elems():
                ex.assume(v >= 0)
        pairs.append((masker, pname, s))
        syms[qn] = s
    return pairs, syms


def grid_model(ex, syms, extra=(), den=64, bound=16):
    """a model of pc /\\ extra in which every mask parameter is a multiple of 1/den within [-bound, bound] if one exists
    (float32-exact values, so that the concrete replay evaluates the same comparisons), else any model"""
    cons = []
    k = 0
    for qn, s in syms.items():
        for v in s.elems():
            if st.is_sym(v):
                iv = z3.Int(f'grid!{k}')
                k += 1
                cons += [v * den == z3.ToReal(iv), v >= -bound, v <= bound]
    r, m = ex.check(*extra, *cons, timeout_ms=20000)
    if r == 'sat':
        return m, True
    r, m = ex.check(*extra)
    if r == 'sat':
        return m, False
    return None, False


def values_of(m, syms):
    return {qn: [st.model_value(m, v) for v in s.elems()] for qn, s in syms.items()}


def set_masks(pit, values, how='nograd'):
    """write concrete mask values (fractions / strings) into the real parameters: in place under no_grad (bumps the version counter) or through .data"""
    byname = {qn: (masker, pname, p) for qn, masker, pname, p in mask_params(pit, include_frozen_time=True)}
    with torch.no_grad():
        for qn, vals in values.items():
            masker, pname, p = byname[qn]
            t = torch.tensor([float(Fraction(v)) for v in vals], dtype=torch.float32).reshape(p.shape)
            if how == 'data':
                p.data.copy_(t)
            else:
                p.copy_(t)


def pit_layers(pit):
    from plinio.methods.pit.nn.module import PITModule
    return [(n, l) for n, l in pit.seed.named_modules() if isinstance(l, PITModule)]


def input_values(m, x):
    return [st.model_value(m, v) for v in st.to_arr(x).reshape(-1)]


def copy_bn_stats(pit, exported):
    """give each BatchNorm re-created by export the statistics/affine of the fused BN it replaces, sliced by the
    layer's output mask (what the C01 statement prescribes)"""
    layers = dict(pit_layers(pit))
    for name, mod in exported.named_modules():
        if name.endswith('_exported_bn'):
            lname = name[:-len('_exported_bn')]
            layer = layers[lname]
            mask = layer.features_mask.bool()
            src = layer.bn
            with torch.no_grad():
                # eps / momentum / affine are hyper-parameters that export itself must carry over: only statistics and affine values are copied
                mod.running_mean.copy_(src.running_mean[mask])
                mod.running_var.copy_(src.running_var[mask])
                if src.affine:
                    mod.weight.copy_(src.weight[mask])
                    mod.bias.copy_(src.bias[mask])
    return exported


class R4(nn.Module):
    """a searchable layer invoked twice at different temporal resolutions (per-invocation metrics must use both shapes)"""

    def __init__(self, C=2, K=2):
        super().__init__()
        self.inp = nn.Conv1d(1, C, 1)
        self.pool = nn.AvgPool1d(2)
        self.pad = nn.ConstantPad1d((K - 1, 0), 0)
        self.rep = nn.Conv1d(C, C, K)
        self.out_a = nn.Conv1d(C, 2, 1)
        self.out_b = nn.Conv1d(C, 2, 1)

    def forward(self, x):
        x = torch.relu(self.inp(x))
        a = self.out_a(torch.relu(self.rep(self.pad(x))))
        b = self.out_b(torch.relu(self.rep(self.pad(self.pool(x)))))
        return a, b


FAMILIES['R4'] = R4


def realize(module):
    """replace every concrete-valued SymTensor parameter/buffer of a module tree by a plain torch tensor (in place)"""
    for m in module.modules():
        for d, is_param in ((m._parameters, True), (m._buffers, False)):
            for k, v in list(d.items()):
                if isinstance(v, SymTensor):
                    t = st.core.demote(v)
                    d[k] = nn.Parameter(t, requires_grad=False) if is_param else t
    return module


def count_params(model, names=None):
    """actual number of weights and biases of conv / linear layers"""
    tot = 0
    for n, m in model.named_modules():
        if isinstance(m, (nn.Conv1d, nn.Conv2d, nn.Linear)) and (names is None or n in names):
            tot += m.weight.numel() + (m.bias.numel() if m.bias is not None else 0)
    return tot


def count_ops(model, x, bias=True, names=None):
    """MAC count per invocation measured with forward hooks: out positions x cout x (cin/groups x k + bias)"""
    tot = [0]
    hooks = []

    def hook(name):
        def h(m, inp, out):
            if names is not None and name not in names:
                return
            if isinstance(m, nn.Linear):
                tot[0] += m.out_features * (m.in_features + (1 if (bias and m.bias is not None) else 0))
            else:
                k = 1
                for ki in m.kernel_size:
                    k *= ki
                pos = 1
                for s in out.shape[2:]:
                    pos *= s
                tot[0] += m.out_channels * ((m.in_channels // m.groups) * k + (1 if (bias and m.bias is not None) else 0)) * pos
        return h
    for n, m in model.named_modules():
        if isinstance(m, (nn.Conv1d, nn.Conv2d, nn.Linear)):
            hooks.append(m.register_forward_hook(hook(n)))
    with torch.no_grad():
        model(x)
    for h in hooks:
        h.remove()
    return tot[0]


class F1(nn.Module):
    """Conv1d -> ReLU -> flatten (module or method) -> Linear -> ReLU -> Linear"""

    def __init__(self, C=2, T=2, H=2, cin=1, variant='method'):
        super().__init__()
        self.c0 = nn.Conv1d(cin, C, 1)
        self.variant = variant
        self.fl = nn.Flatten(1)
        self.fc0 = nn.Linear(C * T, H)
        self.fc1 = nn.Linear(H, 2)

    def forward(self, x):
        x = torch.relu(self.c0(x))
        x = self.fl(x) if self.variant == 'module' else (torch.flatten(x, 1) if self.variant == 'function' else x.flatten(1))
        return self.fc1(torch.relu(self.fc0(x)))


class Q1(nn.Module):
    """Conv1d over a single timestep -> squeeze -> Linear -> Linear"""

    def __init__(self, C=3, H=2, cin=1):
        super().__init__()
        self.c0 = nn.Conv1d(cin, C, 1)
        self.fc0 = nn.Linear(C, H)
        self.fc1 = nn.Linear(H, 2)

    def forward(self, x):
        x = torch.relu(self.c0(x)).squeeze(-1)
        return self.fc1(torch.relu(self.fc0(x)))


class W1(nn.Module):
    """depthwise chain: conv -> dw -> dw -> conv (1D or 2D)"""

    def __init__(self, C=2, nd=1, cin=1, chain=2):
        super().__init__()
        conv = nn.Conv1d if nd == 1 else nn.Conv2d
        self.c0 = conv(cin, C, 1)
        self.dws = nn.ModuleList([conv(C, C, 1, groups=C) for _ in range(chain)])
        self.c1 = conv(C, 2, 1)

    def forward(self, x):
        x = torch.relu(self.c0(x))
        for d in self.dws:
            x = torch.relu(d(x))
        return self.c1(x)


class X1(nn.Module):
    """conv a -> relu -> conv b -> relu -> conv c ; b can be excluded from the search by name or by type (Linear variant)"""

    def __init__(self, C=2, cin=1, kind='conv'):
        super().__init__()
        self.kind = kind
        self.a = nn.Conv1d(cin, C, 1)
        if kind == 'conv':
            self.b = nn.Conv1d(C, C + 1, 1)
            self.c = nn.Conv1d(C + 1, 2, 1)
        else:
            self.b = nn.Linear(C * 2, 3)
            self.c = nn.Linear(3, 2)

    def forward(self, x):
        x = torch.relu(self.a(x))
        if self.kind == 'conv':
            return self.c(torch.relu(self.b(x)))
        return self.c(torch.relu(self.b(x.flatten(1))))


class K3(nn.Module):
    """DenseNet-style nested channel concat: d1 = cat(x, f1(x)); d2 = cat(d1, f2(d1)); searchable consumer of d2.
    origins[i] in {'s', 'f'} says whether f1 / f2 are searchable or fixed (excluded); the three leaves have different widths"""

    def __init__(self, origins=('f', 'f'), C=2, cin=1):
        super().__init__()
        self.origins = tuple(origins)
        self.inp = nn.Identity()
        self.f1 = nn.Conv1d(cin, C, 1)
        self.f2 = nn.Conv1d(cin + C, C + 1, 1)
        self.cons = nn.Conv1d(cin + C + C + 1, C, 1)
        self.out = nn.Conv1d(C, 2, 1)

    def forward(self, x):
        d1 = torch.cat([self.inp(x), torch.relu(self.f1(x))], dim=1)
        d2 = torch.cat([d1, torch.relu(self.f2(d1))], dim=1)
        return self.out(torch.relu(self.cons(d2)))

    def fixed_names(self):
        return tuple(n for n, o in zip(('f1', 'f2'), self.origins) if o == 'f')


class H1(nn.Module):
    """multi-resolution head: two searchable convs at different time resolutions, flattened separately, concatenated, Linear"""

    def __init__(self, C=2, cin=1, T=2, H=2):
        super().__init__()
        self.c0 = nn.Conv1d(cin, C, 1)
        self.pool = nn.AvgPool1d(T)
        self.c1 = nn.Conv1d(cin, C + 1, 1)
        self.fc0 = nn.Linear(C * T + (C + 1), H)
        self.fc1 = nn.Linear(H, 2)

    def forward(self, x):
        a = torch.relu(self.c0(x)).flatten(1)
        b = torch.relu(self.c1(self.pool(x))).flatten(1)
        return self.fc1(torch.relu(self.fc0(torch.cat([a, b], dim=1))))


FAMILIES.update({'F1': F1, 'Q1': Q1, 'W1': W1, 'X1': X1, 'K3': K3, 'H1': H1})
_SHAPES = {'F1': lambda s: (s.get('cin', 1), s.get('T', 2)), 'Q1': lambda s: (s.get('cin', 1), 1),
           'W1': lambda s: (s.get('cin', 1), 2) if s.get('nd', 1) == 1 else (s.get('cin', 1), 2, 2), 'X1': lambda s: (s.get('cin', 1), 2), 'K3': lambda s: (s.get('cin', 1), 2), 'H1': lambda s: (s.get('cin', 1), s.get('T', 2))}


class O1(nn.Module):
    """several heads on a common searchable trunk; the network returns them as a flat tuple, a nested tuple or a dict
    (every returned tensor fixes the width of the layer that produces it)"""

    def __init__(self, C=2, cin=1, out='dict'):
        super().__init__()
        self.out = out
        self.c0 = nn.Conv1d(cin, C, 1)
        self.ha = nn.Conv1d(C, 2, 1)
        self.hb = nn.Conv1d(C, 3, 1)
        self.hc = nn.Conv1d(C, 2, 1)

    def forward(self, x):
        h = torch.relu(self.c0(x))
        a, b, c = self.ha(h), self.hb(h), self.hc(h)
        if self.out == 'dict':
            return {'a': a, 'b': b, 'c': c}
        if self.out == 'nested':
            return a, (b, c)
        if self.out == 'list':
            return [a, b, c]
        return a, b, c


class W2(nn.Module):
    """conv a -> relu -> grouped conv `b` with a channel multiplier (C -> m*C, groups=C; not searchable, excluded by name) -> relu -> conv c -> out
    `b` is not a depthwise convolution: it defines m*C new features"""

    def __init__(self, C=2, cin=1, mult=2, nd=1):
        super().__init__()
        conv = nn.Conv1d if nd == 1 else nn.Conv2d
        self.a = conv(cin, C, 1)
        self.b = conv(C, mult * C, 1, groups=C)
        self.c = conv(mult * C, C, 1)
        self.o = conv(C, 2, 1)

    def forward(self, x):
        return self.o(torch.relu(self.c(torch.relu(self.b(torch.relu(self.a(x)))))))


class Z1(nn.Module):
    """a sub-module the user may freeze (conv -> ReLU -> Dropout, an nn.Sequential) followed by conv -> flatten -> linear; the ReLU and Dropout
    modules are not converted, so the user's model and the converted one share them"""

    def __init__(self, C=2, cin=1, nd=2, HW=2):
        super().__init__()
        conv = nn.Conv1d if nd == 1 else nn.Conv2d
        self.frozen = nn.Sequential(conv(cin, C, 1), nn.ReLU(), nn.Dropout(0.5))
        self.c1 = conv(C, C, 1)
        self.fc = nn.Linear(C * (HW if nd == 1 else HW * HW), 2)

    def forward(self, x):
        return self.fc(torch.relu(self.c1(self.frozen(x))).flatten(1))


class A2(nn.Module):
    """two searchable convolutions whose outputs are flattened FIRST and summed afterwards, then Linear: the two sides of the sum must keep the
    same alive features (one shared masker), and the Linear sees T x alive features"""

    def __init__(self, C=2, cin=1, T=2, nd=1):
        super().__init__()
        conv = nn.Conv1d if nd == 1 else nn.Conv2d
        self.a = conv(cin, C, 1)
        self.b = conv(cin, C, 1)
        self.fc = nn.Linear(C * (T if nd == 1 else T * T), 2)

    def forward(self, x):
        return self.fc(torch.relu(self.a(x)).flatten(1) + torch.relu(self.b(x)).flatten(1))


class Q2(nn.Module):
    """Conv2d on (N, cin, T, 1) -> ReLU -> squeeze of the trailing unit dimension (dim written as -1 or 3) -> Conv1d -> Conv1d:
    the squeeze removes no features, the consumer sees the producer's alive channels"""

    def __init__(self, C=2, cin=1, T=2, dim=-1):
        super().__init__()
        self.dim = dim
        self.c0 = nn.Conv2d(cin, C, 1)
        self.c1 = nn.Conv1d(C, C, 1)
        self.o = nn.Conv1d(C, 2, 1)

    def forward(self, x):
        y = torch.relu(self.c0(x)).squeeze(self.dim)
        return self.o(torch.relu(self.c1(y)))


class K4(nn.Module):
    """channel concat of several VIEWS of the same producer (through different element-wise ops) and of the input: every view contributes its
    alive features to the consumer"""

    def __init__(self, C=2, cin=1):
        super().__init__()
        self.inp = nn.Identity()
        self.c0 = nn.Conv1d(cin, C, 1)
        self.mp = nn.MaxPool1d(1)
        self.ap = nn.AvgPool1d(1)
        self.cons = nn.Conv1d(cin + 2 * C, C, 1)
        self.o = nn.Conv1d(C, 2, 1)

    def forward(self, x):
        y = torch.relu(self.c0(x))
        z = torch.cat([self.inp(x), self.mp(y), self.ap(y)], dim=1)
        return self.o(torch.relu(self.cons(z)))


class X2(nn.Module):
    """searchable conv `a` feeding the excluded conv `b` DIRECTLY (no op in between) or only through a channel concat with the input; then relu -> conv c
    (the features consumed by a layer that keeps its static shape cannot be pruned)"""

    def __init__(self, C=2, cin=1, via='direct'):
        super().__init__()
        self.via = via
        self.inp = nn.Identity()
        self.a = nn.Conv1d(cin, C, 1)
        self.b = nn.Conv1d(C + (cin if via == 'cat' else 0), C + 1, 1)
        self.c = nn.Conv1d(C + 1, 2, 1)

    def forward(self, x):
        y = self.a(x)
        if self.via == 'cat':
            y = torch.cat([y, self.inp(x)], dim=1)
        return self.c(torch.relu(self.b(y)))


FAMILIES.update({'O1': O1, 'W2': W2, 'Z1': Z1, 'A2': A2, 'Q2': Q2, 'K4': K4, 'X2': X2})
_SHAPES.update({'X2': lambda s: (s.get('cin', 1), 2), 'Q2': lambda s: (s.get('cin', 1), s.get('T', 2), 1), 'K4': lambda s: (s.get('cin', 1), 2), 'A2': lambda s: (s.get('cin', 1), s.get('T', 2)) if s.get('nd', 1) == 1 else (s.get('cin', 1), s.get('T', 2), s.get('T', 2)), 'Z1': lambda s: (s.get('cin', 1), s.get('HW', 2)) if s.get('nd', 2) == 1 else (s.get('cin', 1), s.get('HW', 2), s.get('HW', 2)), 'O1': lambda s: (s.get('cin', 1), 2), 'W2': lambda s: (s.get('cin', 1), 2) if s.get('nd', 1) == 1 else (s.get('cin', 1), 2, 2)})


def flat_outputs(y):
    """the tensors of a (possibly nested) network output, in a deterministic order"""
    if isinstance(y, dict):
        out = []
        for k in sorted(y):
            out += flat_outputs(y[k])
        return out
    if isinstance(y, (tuple, list)):
        out = []
        for v in y:
            out += flat_outputs(v)
        return out
    return [y]


def out_shapes(y):
    return [tuple(t.shape) for t in flat_outputs(y)]


def flat_cat(y):
    """one 1-D tensor with every element of every returned tensor"""
    ts = flat_outputs(y)
    if len(ts) == 1:
        return ts[0]
    return torch.cat([t.reshape(-1) for t in ts])
