"""SuperNet program grammar S(n, kind, blocks, twice) and helpers (C03, C06, C07, C11, C17, C18)."""
import random
from fractions import Fraction

import numpy as np
import torch
import torch.nn as nn
import torch.nn.functional as F

import symtorch as st
from symtorch import SymTensor
from vlib.pitlib import dyadic_init


class UserBlock(nn.Module):
    """user-defined multi-layer block; `tail` decides how it ends: 'layer' (a module), 'fn' (a function call), 'add' (residual)"""

    def __init__(self, cin, cout, tail='layer'):
        super().__init__()
        self.c0 = nn.Conv2d(cin, cout, 1)
        self.c1 = nn.Conv2d(cout, cout, 1)
        self.tail = tail

    def forward(self, x):
        y = self.c1(torch.relu(self.c0(x)))
        if self.tail == 'fn':
            return torch.relu(y)
        if self.tail == 'drop':
            # behaviour depends on the module's own training flag (read at call time, not at trace time)
            return F.dropout(y, 0.5, training=self.training)
        if self.tail == 'add':
            return y + self.c0(x)
        return y


def make_branch(kind, cin, cout, i):
    """branch i of a block; kinds cycle so that a block mixes layer types"""
    if kind == 'conv':
        k = 3 if i % 2 == 0 else 1
        return nn.Conv2d(cin, cout, k, padding=k // 2)
    if kind == 'seq':
        if i % 2 == 0:
            return nn.Sequential(nn.Conv2d(cin, cout, 1), nn.ReLU())
        return nn.Sequential(nn.Conv2d(cin, cout, 3, padding=1), nn.Conv2d(cout, cout, 1))
    if kind == 'user':
        return UserBlock(cin, cout, 'layer')
    if kind == 'userdrop':
        return UserBlock(cin, cout, 'drop') if i % 2 == 0 else nn.Conv2d(cin, cout, 1)
    if kind == 'userfn':
        return UserBlock(cin, cout, 'fn') if i % 2 == 0 else nn.Conv2d(cin, cout, 1)
    if kind == 'useradd':
        return UserBlock(cin, cout, 'add') if i % 2 == 0 else nn.Conv2d(cin, cout, 1)
    if kind == 'identity':
        return nn.Identity() if i == 0 else nn.Conv2d(cin, cout, 1)
    if kind == 'dw':
        return nn.Conv2d(cin, cout, 1, groups=cin) if i % 2 == 0 else nn.Conv2d(cin, cout, 1)
    if kind in ('nested', 'nested_last'):
        # a branch that itself contains a choice block ('nested': the branch IS the inner block; 'nested_last': the inner block is the last element
        # of an nn.Sequential); the other branches are plain convolutions
        from plinio.methods.supernet import SuperNetModule
        if i % 2 == 0:
            inner = SuperNetModule([nn.Conv2d(cout, cout, 3, padding=1), nn.Conv2d(cout, cout, 1)])
            return nn.Sequential(nn.Conv2d(cin, cout, 1), nn.ReLU(), inner) if kind == 'nested_last' else nn.Sequential(nn.Conv2d(cin, cout, 1), inner, nn.ReLU())
        return nn.Conv2d(cin, cout, 1)
    if kind == 'mix':
        opts = [lambda: nn.Conv2d(cin, cout, 3, padding=1), lambda: nn.Sequential(nn.Conv2d(cin, cout, 1), nn.ReLU()), lambda: nn.Conv2d(cin, cout, 1),
                lambda: nn.Sequential(nn.Conv2d(cin, cout, 3, padding=1), nn.Conv2d(cout, cout, 1)), lambda: UserBlock(cin, cout, 'layer'),
                lambda: nn.Conv2d(cin, cout, 1, groups=cin if cin == cout else 1)]
        return opts[i % len(opts)]()
    raise KeyError(kind)


class S(nn.Module):
    """stem conv -> 1..3 choice blocks (each with n branches) -> flatten -> linear.  `twice`: the first block is invoked twice."""

    def __init__(self, n=2, kind='conv', blocks=1, twice=False, C=2, HW=2, gumbel=False, hard=False, stem2=False, collide=False, bn=False):
        super().__init__()
        from plinio.methods.supernet import SuperNetModule
        # bn: the fixed stem is a conv + BatchNorm pair (a module whose behaviour depends on its training flag)
        self.stem = nn.Sequential(nn.Conv2d(1, C, 1), nn.BatchNorm2d(C)) if bn else nn.Conv2d(1, C, 1)
        self.blocks = nn.ModuleList()
        for b in range(blocks):
            self.blocks.append(SuperNetModule([make_branch(kind, C, C, i + b) for i in range(n)], gumbel_softmax=gumbel, hard_softmax=hard))
        # `collide`: a fixed layer whose qualified name has the name of a choice block as a proper string prefix
        # ('blocks.0' / 'blocks.0x'), as in numbered layers layer1 / layer10
        self.collide = collide
        if collide:
            d = nn.ModuleDict({str(i): b for i, b in enumerate(self.blocks)})
            d['0x'] = nn.Conv2d(C, C, 3, padding=1)
            self.blocks = d
        self.twice = twice
        self.stem2 = stem2      # the fixed stem is invoked a second time on a pooled (lower resolution) copy of the input
        self.fc = nn.Linear(C * HW * HW, 2)

    def forward(self, x):
        aux = self.stem(F.avg_pool2d(x, 2)).flatten(1).sum(dim=1, keepdim=True) if self.stem2 else None
        x = torch.relu(self.stem(x))
        if self.collide:
            for k in sorted(self.blocks.keys()):
                x = torch.relu(self.blocks[k](x))
            return self.fc(x.flatten(1))
        for i, b in enumerate(self.blocks):
            x = torch.relu(b(x))
            if i == 0 and self.twice:
                x = torch.relu(b(x))
        y = self.fc(x.flatten(1))
        return y + aux if aux is not None else y


class _Backbone(nn.Module):
    def __init__(self, C):
        super().__init__()
        from plinio.methods.supernet import SuperNetModule
        self.conv0 = nn.Conv2d(1, C, 1)
        self.blk = SuperNetModule([nn.Conv2d(C, C, 1), nn.Sequential(nn.Conv2d(C, C, 3, padding=1), nn.ReLU())])

    def forward(self, x):
        return self.blk(torch.relu(self.conv0(x)))


class S2(nn.Module):
    """two-stage search: a backbone that was itself searched and EXPORTED (its layers keep names such as blk.sn_branches.1.0) is offered as one
    alternative of a choice block of a second SuperNet; the other alternative is a plain convolution"""

    def __init__(self, backbone, C=2, HW=2):
        super().__init__()
        from plinio.methods.supernet import SuperNetModule
        self.feat = SuperNetModule([backbone, nn.Sequential(nn.Conv2d(1, C, 1), nn.ReLU())])
        self.fc = nn.Linear(C * HW * HW, 2)

    def forward(self, x):
        return self.fc(torch.relu(self.feat(x)).flatten(1))


def _build_two_stage(spec, seed):
    from plinio.methods import SuperNet
    from plinio.methods.supernet.nn.combiner import SuperNetCombiner
    C, hw = spec.get('C', 2), spec.get('HW', 2)
    torch.manual_seed(seed)
    bb = _Backbone(C)
    dyadic_init(bb, seed)
    sn1 = SuperNet(bb.eval(), input_shape=(1, hw, hw))
    with torch.no_grad():
        for mod in sn1.modules():
            if isinstance(mod, SuperNetCombiner):
                mod.alpha.copy_(torch.tensor([0.25, 0.75]))        # the first search selected the second alternative
    exported = sn1.export()
    m = S2(exported, C, hw)
    with torch.no_grad():
        for mod in m.modules():
            if isinstance(mod, SuperNetCombiner):
                mod.alpha.fill_(1.0 / mod.n_branches)
    for n_, p_ in m.named_parameters():
        if n_.startswith('feat.sn_branches.1') or n_.startswith('fc'):
            pass
    dyadic_init(m.feat.sn_branches[1], seed + 1)
    dyadic_init(m.fc, seed + 2)
    return m, (1, hw, hw)


def prog_id(spec):
    return 'S(' + ','.join(f'{k}={v}' for k, v in sorted(spec.items()) if k not in ('id', 'tier', 'seed', 'selftest', 'sn')) + ')'


def build(spec, seed=0):
    if spec.get('two_stage'):
        return _build_two_stage(spec, seed)
    torch.manual_seed(seed)
    kw = {k: v for k, v in spec.items() if k in ('n', 'kind', 'blocks', 'twice', 'C', 'HW', 'gumbel', 'hard', 'stem2', 'collide', 'bn')}
    m = S(**kw)
    dyadic_init(m, seed)
    # the combiners' alpha are parameters too: restore the uniform initialisation
    from plinio.methods.supernet.nn.combiner import SuperNetCombiner
    with torch.no_grad():
        for mod in m.modules():
            if isinstance(mod, SuperNetCombiner):
                mod.alpha.fill_(1.0 / mod.n_branches)
    hw = spec.get('HW', 2)
    return m, (1, hw, hw)


def make_sn(spec, seed=0, **kw):
    from plinio.methods import SuperNet
    model, shape = build(spec, seed)
    model.eval()
    args = dict(spec.get('sn', {}))
    args.update(kw)
    sn = SuperNet(model, input_shape=shape, **args)
    # `after`: another phase of the search entered after construction (e.g. train_net_only(): the selection is frozen but keeps its values)
    for name in spec.get('after', []):
        getattr(sn, name)()
    sn.eval()
    return sn, model, shape


def combiners(sn):
    from plinio.methods.supernet.nn.combiner import SuperNetCombiner
    out, seen = [], set()
    for name, mod in sn.named_modules():
        if isinstance(mod, SuperNetCombiner) and id(mod) not in seen:
            seen.add(id(mod))
            out.append((name, mod))
    return out


def fresh_alphas(sn, ex=None, distinct=True, gap=None, ties=False):
    """ties=True (with distinct=False): the maximum of at least one block is attained twice"""
    import z3
    pairs, sy = [], {}
    tied = []
    for name, c in combiners(sn):
        a = SymTensor.fresh(name.replace('.', '_') + '_alpha', (c.n_branches,))
        if ex is not None:
            el = a.elems()
            for v in el:
                ex.assume(v >= -4, v <= 4)
            if ties:
                for i in range(len(el)):
                    for j in range(i + 1, len(el)):
                        tied.append(z3.And(el[i] == el[j], *[el[i] >= el[k] for k in range(len(el)) if k not in (i, j)]))
            elif distinct:
                for i in range(len(el)):
                    for j in range(i + 1, len(el)):
                        if gap is None:
                            ex.assume(el[i] != el[j])
                        else:
                            ex.assume(z3.Or(el[i] - el[j] >= gap, el[j] - el[i] >= gap))
        pairs.append((c, 'alpha', a))
        sy[name] = a
    if ties and ex is not None:
        ex.assume(z3.Or(*tied))
    return pairs, sy


def set_alphas(sn, values):
    byname = dict(combiners(sn))
    with torch.no_grad():
        for name, vals in values.items():
            byname[name].alpha.copy_(torch.tensor([float(Fraction(v)) for v in vals], dtype=torch.float32))


def values_of(m, sy):
    return {n: [st.model_value(m, v) for v in a.elems()] for n, a in sy.items()}


def grid_model(ex, sy, extra=(), den=16, bound=4):
    import z3
    cons = []
    k = 0
    for a in sy.values():
        for v in a.elems():
            if st.is_sym(v):
                cons += [v * den == z3.ToReal(z3.Int(f'grid!{k}')), v >= -bound, v <= bound]
                k += 1
    r, m = ex.check(*extra, *cons, timeout_ms=20000)
    if r == 'sat':
        return m
    r, m = ex.check(*extra)
    return m if r == 'sat' else None
