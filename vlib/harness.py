"""Driver shared by all property checks: instance pool, replay-before-report, known findings, evidence."""
import fnmatch
import hashlib
import importlib
import json
import multiprocessing as mp
import os
import sys
import time
import traceback
from concurrent.futures import ProcessPoolExecutor, as_completed
from fractions import Fraction

VERIF = os.path.dirname(os.path.dirname(os.path.abspath(__file__)))
REPO = os.environ.get('VERIF_REPO', '/repo')

EXIT_OK, EXIT_VIOLATION, EXIT_INCONCLUSIVE = 0, 1, 3


def jsonable(o):
    if isinstance(o, Fraction):
        return str(o)
    if isinstance(o, dict):
        return {str(k): jsonable(v) for k, v in o.items()}
    if isinstance(o, (list, tuple, set)):
        return [jsonable(v) for v in o]
    if isinstance(o, (bool, int, float, str)) or o is None:
        return o
    try:
        import numpy as np
        if isinstance(o, np.generic):
            return jsonable(o.item())
        if isinstance(o, np.ndarray):
            return jsonable(o.tolist())
    except Exception:
        pass
    return str(o)


def frac(s):
    """inverse of jsonable for numbers stored as fraction strings"""
    if isinstance(s, str):
        return Fraction(s)
    return s


class InstanceResult:
    """what one harness instance (one program / parameter set) reports back to the driver"""

    def __init__(self, instance_id):
        self.instance = instance_id
        self.paths = 0
        self.decisions = 0
        self.queries = 0
        self.solver_s = 0.0
        self.obligations = 0
        self.discharged = 0
        self.witnesses = 0
        self.witnesses_ok = 0
        self.validated = 0            # concolic / differential runs of the real code that agreed with the engine
        self.violations = []          # replayed counterexample records
        self.inconclusive = []        # unknown / timeout / budget
        self.errors = []              # harness errors (engine gap, non-reproducing counterexample, ...)
        self.samples = []
        self.notes = []
        self.handlers = {}
        self.wall_s = 0.0
        self.extra = {}

    def absorb(self, ex):
        """add explorer statistics"""
        s = ex.stats()
        self.paths += s['paths']
        self.decisions += s['decisions']
        self.queries += s['queries']
        self.solver_s += s['solver_s']

    def oblige(self, ok, n=1):
        self.obligations += n
        if ok:
            self.discharged += n

    def sample(self, s, cap=3):
        if len(self.samples) < cap:
            self.samples.append(jsonable(s))

    def to_dict(self):
        return jsonable(self.__dict__)


def _worker_init():
    os.environ.setdefault('OMP_NUM_THREADS', '1')
    os.environ.setdefault('MKL_NUM_THREADS', '1')
    for p in (VERIF, REPO):
        if p in sys.path:
            sys.path.remove(p)
    sys.path.insert(0, VERIF)
    sys.path.insert(0, REPO)
    import warnings
    warnings.filterwarnings('ignore')


def _die_with_parent():
    try:
        import ctypes
        import signal
        ctypes.CDLL("libc.so.6").prctl(1, signal.SIGKILL)   # PR_SET_PDEATHSIG
    except Exception:
        pass


def _run_one(modname, params):
    if os.environ.get('VERIF_DEBUG_HANG'):
        import faulthandler
        faulthandler.dump_traceback_later(int(os.environ['VERIF_DEBUG_HANG']), exit=True)
    _die_with_parent()
    _worker_init()
    t0 = time.time()
    try:
        import torch
        torch.set_num_threads(1)
        mod = importlib.import_module(modname)
        res = mod.run_instance(params)
        d = res.to_dict() if isinstance(res, InstanceResult) else res
    except BaseException as e:  # engine exceptions are BaseException
        d = InstanceResult(params.get('id', '?')).to_dict()
        name = type(e).__name__
        msg = f"{name}: {e}"
        tb = traceback.format_exc(limit=int(os.environ.get("VERIF_TB", "12")))
        if name == 'Inconclusive':
            d['inconclusive'].append(msg)
        else:
            d['errors'].append(msg + '\n' + tb)
    try:
        import symtorch
        d['handlers'] = {str(k): v for k, v in symtorch.core.USED_HANDLERS.items()}
    except Exception:
        pass
    d['wall_s'] = round(time.time() - t0, 2)
    return d


def load_known(prop):
    """known_findings.txt: 'finding: property=<id> key=<glob> <text>' / 'fixed: property=<id> <commit> <text>'"""
    out = []
    path = os.path.join(VERIF, 'known_findings.txt')
    if not os.path.exists(path):
        return out
    for line in open(path):
        line = line.strip()
        if not line.startswith('finding:'):
            continue
        body = line[len('finding:'):].strip()
        parts = body.split(None, 2)
        if len(parts) < 2 or not parts[0].startswith('property=') or not parts[1].startswith('key='):
            continue
        if parts[0][len('property='):] != prop:
            continue
        out.append((parts[1][len('key='):], parts[2] if len(parts) > 2 else ''))
    return out


def match_known(known, key):
    for pat, text in known:
        if fnmatch.fnmatchcase(key, pat):
            return pat, text
    return None


def write_replay(prop, record):
    d = os.path.join(VERIF, 'replay')
    os.makedirs(d, exist_ok=True)
    blob = json.dumps(jsonable(record), sort_keys=True, indent=1)
    h = hashlib.sha1(blob.encode()).hexdigest()[:12]
    path = os.path.join(d, f"{prop}-{h}.json")
    with open(path, 'w') as f:
        f.write(blob)
    return path


def main(modname, argv=None):
    import argparse
    _worker_init()
    mod = importlib.import_module(modname)
    prop = mod.PROPERTY
    ap = argparse.ArgumentParser(prog=f'check {prop}')
    ap.add_argument('--tier', default=os.environ.get('VERIF_TIER', 'quick'), choices=['quick', 'thorough'])
    ap.add_argument('--replay', default=None)
    ap.add_argument('--jobs', type=int, default=int(os.environ.get('VERIF_JOBS', '16')))
    ap.add_argument('--only', default=None, help='substring filter on instance ids')
    ap.add_argument('--list', action='store_true')
    ap.add_argument('--no-evidence', action='store_true')
    ap.add_argument('--selftest', action='store_true', help='run with a deliberately wrong oracle: must report violations')
    args = ap.parse_args(argv)
    seed = int(os.environ.get('VERIF_SEED', '0') or 0)

    if args.replay:
        rec = json.load(open(args.replay))
        reproduced, msg = mod.replay(rec)
        print(f"replay {args.replay}: {'REPRODUCED' if reproduced else 'not reproduced'}: {msg}")
        if reproduced:
            print(f"VIOLATION property={prop} replay={args.replay}")
            return EXIT_VIOLATION
        return EXIT_OK

    t0 = time.time()
    insts = mod.instances(args.tier, seed)
    for p in insts:
        p.setdefault('tier', args.tier)
        p.setdefault('seed', seed)
        if args.selftest:
            p['selftest'] = True
    if args.only:
        insts = [p for p in insts if args.only in p['id']]
    if args.list:
        for p in insts:
            print(p['id'])
        return 0
    results = []
    jobs = max(1, min(args.jobs, len(insts)))
    per_inst_timeout = getattr(mod, 'INSTANCE_TIMEOUT_S', {}).get(args.tier, 1800)
    if jobs == 1 and os.environ.get('VERIF_INPROC'):
        results = [_run_one(modname, p) for p in insts]
    else:
        ctx = mp.get_context('spawn')
        with ProcessPoolExecutor(max_workers=jobs, mp_context=ctx) as pool:
            futs = {pool.submit(_run_one, modname, p): p for p in insts}
            for f in as_completed(futs):
                p = futs[f]
                try:
                    results.append(f.result())
                except BaseException as e:
                    r = InstanceResult(p['id']).to_dict()
                    r['errors'].append(f"worker died: {type(e).__name__}: {e}")
                    results.append(r)
    results.sort(key=lambda r: r['instance'])
    return report(mod, args, seed, insts, results, time.time() - t0)


def report(mod, args, seed, insts, results, wall):
    prop = mod.PROPERTY
    known = load_known(prop)
    tot = dict(paths=0, decisions=0, queries=0, solver_s=0.0, obligations=0, discharged=0, witnesses=0,
               witnesses_ok=0, validated=0)
    violations, inconclusive, errors, samples, notes = [], [], [], [], []
    handlers = {}
    for r in results:
        for k in tot:
            tot[k] += r.get(k, 0)
        for v in r['violations']:
            v.setdefault('instance', r['instance'])
            violations.append(v)
        inconclusive += [f"{r['instance']}: {m}" for m in r['inconclusive']]
        errors += [f"{r['instance']}: {m}" for m in r['errors']]
        for s in r['samples']:
            if len(samples) < 8:
                samples.append({'instance': r['instance'], 'case': s})
        notes += [f"{r['instance']}: {m}" for m in r.get('notes', [])]
        for h, c in r.get('handlers', {}).items():
            handlers[h] = handlers.get(h, 0) + c

    # group violations by key; replay happened in the worker (record['replayed'])
    by_key = {}
    for v in violations:
        by_key.setdefault(v['key'], []).append(v)
    new_keys, known_hits = [], {}
    for key, vs in sorted(by_key.items()):
        hit = match_known(known, key)
        if hit:
            known_hits.setdefault(hit, []).append(key)
        else:
            new_keys.append(key)
    lines = []
    for (pat, text), keys in known_hits.items():
        lines.append(f"KNOWN-FINDING: property={prop} {text} [{len(keys)} distinct counterexample keys match {pat}]")
    exit_code = EXIT_OK
    replay_paths = []
    for key in new_keys[:12]:
        rec = by_key[key][0]
        path = write_replay(prop, rec)
        replay_paths.append(path)
        lines.append(f"VIOLATION property={prop} replay={path}")
        lines.append(f"  key={key} :: {rec.get('what', '')}")
        exit_code = EXIT_VIOLATION
    if len(new_keys) > 12:
        lines.append(f"  ... and {len(new_keys) - 12} more distinct violation keys")
    if args.selftest:
        # a self-test run must find violations; it never writes evidence
        ok = bool(by_key) and not errors
        print(f"SELFTEST property={prop}: {'ok' if ok else 'FAILED'} ({len(by_key)} distinct seeded-oracle violations, {len(errors)} errors)")
        for e in errors[:5]:
            print('  error:', e[:400])
        return 0 if ok else EXIT_INCONCLUSIVE
    if errors or inconclusive:
        if exit_code == EXIT_OK:
            exit_code = EXIT_INCONCLUSIVE
        for m in errors[:10]:
            lines.append(f"HARNESS-ERROR property={prop} {m[:1500]}")
        for m in inconclusive[:10]:
            lines.append(f"INCONCLUSIVE property={prop} {m[:600]}")
    if tot['witnesses'] != tot['witnesses_ok'] and exit_code == EXIT_OK:
        exit_code = EXIT_INCONCLUSIVE
        lines.append(f"HARNESS-ERROR property={prop} vacuity witnesses failed: {tot['witnesses_ok']}/{tot['witnesses']}")
    if tot['paths'] == 0 and tot['obligations'] == 0 and exit_code == EXIT_OK:
        exit_code = EXIT_INCONCLUSIVE
        lines.append(f"HARNESS-ERROR property={prop} nothing was explored")

    print(f"[{prop}] tier={args.tier} instances={len(results)} paths={tot['paths']} decisions={tot['decisions']} "
          f"queries={tot['queries']} solver_s={tot['solver_s']:.1f} obligations={tot['obligations']} "
          f"discharged={tot['discharged']} witnesses={tot['witnesses_ok']}/{tot['witnesses']} "
          f"validated={tot['validated']} violations(distinct)={len(by_key)} known={sum(len(v) for v in known_hits.values())} "
          f"wall={wall:.1f}s")
    for n in notes[:20]:
        print('  note:', n[:300])
    for ln in lines:
        print(ln)

    if not args.no_evidence and not args.only:
        ev = {
            'property_id': prop,
            'tier': args.tier,
            'seed': seed,
            'level': 'model_checking',
            'coverage': {
                'states': max(tot['paths'], 0),
                'transitions': max(tot['decisions'], 0),
                'traces_validated_against_impl': tot['validated'],
                'samples': samples or [{'note': 'no sample recorded'}],
                'obligations': tot['obligations'],
                'discharged': tot['discharged'],
                'programs': len(results),
                'explanation': ("states = feasible symbolic paths of the real code explored by the engine, transitions = branch "
                                "decisions decided by the solver, obligations = negated-assertion queries (discharged = unsat), "
                                "traces_validated_against_impl = concrete re-executions of the real code (plain torch) that "
                                "agreed with the engine"),
                'exhaustive': False,
                'technique': getattr(mod, 'TECHNIQUE', 'symbolic execution of the real code on z3-backed tensors'),
                'functions_encoded': getattr(mod, 'FUNCTIONS_ENCODED', []),
                'bounds': (getattr(mod, 'BOUNDS', {}) or {}).get(args.tier, ''),
                'outside_bounds': getattr(mod, 'OUTSIDE', []),
                'instances': [r['instance'] for r in results][:200],
                'solver_queries': tot['queries'],
                'solver_seconds': round(tot['solver_s'], 2),
                'unknown_or_timeout': len(inconclusive),
                'harness_errors': len(errors),
                'witnesses': tot['witnesses'],
                'witnesses_ok': tot['witnesses_ok'],
                'aten_handlers_used': handlers,
                'known_findings_matched': [{'pattern': pat, 'text': text, 'keys': keys[:20], 'n_keys': len(keys)}
                                           for (pat, text), keys in known_hits.items()],
                'new_violation_keys': new_keys[:50],
                'notes': notes[:50],
                'per_instance': [{k: r.get(k) for k in ('instance', 'paths', 'decisions', 'queries', 'solver_s', 'obligations',
                                                        'discharged', 'validated', 'wall_s')} for r in results][:300],
            },
            'assumptions': getattr(mod, 'ASSUMPTIONS', []),
            'wall_s': round(wall, 2),
            'violations': len(new_keys),
        }
        cov = ev['coverage']
        cov['evaluations'] = tot['obligations'] + tot['paths']
        cov['distinct_nontrivial'] = tot['discharged']
        cov['rule'] = ('evaluations = feasible paths + solver obligations; distinct_nontrivial = obligations that were sent to the '
                       'solver and came back unsat (trivially true assertions are not counted)')
        if cov['states'] < 1 or cov['transitions'] < 1:
            # a harness without data-dependent branching: report the exploration-style counts only
            cov.pop('states'); cov.pop('transitions')
        os.makedirs(os.path.join(VERIF, 'evidence'), exist_ok=True)
        with open(os.path.join(VERIF, 'evidence', f'{prop}.json'), 'w') as f:
            json.dump(jsonable(ev), f, indent=1, sort_keys=True)
    return exit_code
