"""MPS program grammar M* and helpers (C02, C05, C10, C11, C17, C18, C20)."""
import copy
import random
from fractions import Fraction

import numpy as np
import torch
import torch.nn as nn
import z3

import symtorch as st
from symtorch import SymTensor
from vlib.pitlib import dyadic_init


class MD(nn.Module):
    """Conv2d -> [BN] -> ReLU -> [depthwise Conv2d -> ReLU] -> [pool] -> flatten -> Linear [-> ReLU -> Linear]"""

    def __init__(self, C=2, cin=1, HW=3, k=2, bn=False, dw=False, pool='none', two_fc=False, pad_mode=None):
        super().__init__()
        # pad_mode: the convolution pads by one pixel with a non-default padding mode ('replicate', 'reflect', 'circular')
        self.c0 = nn.Conv2d(cin, C, k) if pad_mode is None else nn.Conv2d(cin, C, k, padding=1, padding_mode=pad_mode)
        self.bn0 = nn.BatchNorm2d(C) if bn else None
        self.dw = nn.Conv2d(C, C, 1, groups=C) if dw else None
        self.pool = {'max': nn.MaxPool2d(2), 'avg': nn.AvgPool2d(2), 'none': None}[pool]
        o = HW - k + 1 + (2 if pad_mode is not None else 0)
        if pool != 'none':
            o //= 2
        self.two_fc = two_fc
        self.fc = nn.Linear(C * o * o, 3 if two_fc else 2)
        self.fc2 = nn.Linear(3, 2) if two_fc else None

    def forward(self, x):
        x = self.c0(x)
        if self.bn0 is not None:
            x = self.bn0(x)
        x = torch.relu(x)
        if self.dw is not None:
            x = torch.relu(self.dw(x))
        if self.pool is not None:
            x = self.pool(x)
        x = self.fc(x.flatten(1))
        if self.fc2 is not None:
            x = self.fc2(torch.relu(x))
        return x


class MA(nn.Module):
    """residual add of two convolutions -> ReLU -> flatten -> Linear"""

    def __init__(self, C=2, cin=1, HW=2):
        super().__init__()
        self.c0 = nn.Conv2d(cin, C, 1)
        self.c1 = nn.Conv2d(cin, C, 1)
        self.fc = nn.Linear(C * HW * HW, 2)

    def forward(self, x):
        return self.fc(torch.relu(self.c0(x) + self.c1(x)).flatten(1))


class ML(nn.Module):
    """Linear -> [BN1d] -> ReLU -> Linear"""

    def __init__(self, nin=3, H=2, bn=True):
        super().__init__()
        self.fc0 = nn.Linear(nin, H)
        self.bn = nn.BatchNorm1d(H) if bn else None
        self.fc1 = nn.Linear(H, 2)

    def forward(self, x):
        x = self.fc0(x)
        if self.bn is not None:
            x = self.bn(x)
        return self.fc1(torch.relu(x))


class M1D(nn.Module):
    """Conv1d -> ReLU -> Conv1d -> flatten -> Linear  (1D variant)"""

    def __init__(self, C=2, cin=1, T=2):
        super().__init__()
        self.c0 = nn.Conv1d(cin, C, 1)
        self.c1 = nn.Conv1d(C, C, 1)
        self.fc = nn.Linear(C * T, 2)

    def forward(self, x):
        return self.fc(torch.relu(self.c1(torch.relu(self.c0(x)))).flatten(1))


class MR(nn.Module):
    """Conv1d -> ReLU -> weight-shared Conv1d head applied at two temporal resolutions (T and T/2) -> pooled to one step, summed -> Linear
    (a per-invocation metric must charge the head once per call, each with its own output length)"""

    def __init__(self, C=2, cin=1, T=2):
        super().__init__()
        self.c0 = nn.Conv1d(cin, C, 1)
        self.pool = nn.AvgPool1d(2)
        self.head = nn.Conv1d(C, C, 1)
        self.gp1 = nn.AvgPool1d(T)
        self.gp2 = nn.AvgPool1d(T // 2)
        self.fc = nn.Linear(C, 2)

    def forward(self, x):
        y1 = torch.relu(self.c0(x))
        y2 = self.pool(y1)
        z1 = self.gp1(torch.relu(self.head(y1)))
        z2 = self.gp2(torch.relu(self.head(y2)))
        return self.fc((z1 + z2).flatten(1))


class M1A(nn.Module):
    """1D residual: two parallel Conv1d (with bias, different weight ranges) summed -> ReLU -> flatten -> Linear; the two convolutions share
    one weight quantizer (width-sharing group)"""

    def __init__(self, C=2, cin=1, T=2):
        super().__init__()
        self.c0 = nn.Conv1d(cin, C, 1)
        self.c1 = nn.Conv1d(cin, C, 1)
        self.fc = nn.Linear(C * T, 2)

    def forward(self, x):
        return self.fc(torch.relu(self.c0(x) + self.c1(x)).flatten(1))


class MF(nn.Module):
    """2D stem -> ReLU -> flatten(2) (channels kept, spatial dims merged) -> 1D residual block whose skip is the flattened stem -> conv -> linear:
    both operands of the sum must keep the same alive channels under per-channel pruning (one shared weight quantizer)"""

    def __init__(self, C=2, T=2):
        super().__init__()
        self.stem = nn.Conv2d(1, C, 1)
        self.a = nn.Conv1d(C, C, 1)
        self.c = nn.Conv1d(C, 2, 1)
        self.fc = nn.Linear(2 * T, 2)

    def forward(self, x):
        y = torch.relu(self.stem(x)).flatten(2)
        z = torch.relu(self.a(y)) + y
        return self.fc(torch.relu(self.c(z)).flatten(1))


FAMILIES = {'MD': MD, 'MA': MA, 'ML': ML, 'M1D': M1D, 'MR': MR, 'M1A': M1A, 'MF': MF}


def prog_id(spec):
    return spec['fam'] + '(' + ','.join(f'{k}={v}' for k, v in sorted(spec.items()) if k not in ('fam', 'id', 'tier', 'seed', 'selftest')) + ')'


def build(spec, seed=0):
    torch.manual_seed(seed)
    kw = {k: v for k, v in spec.items() if k not in ('fam', 'w', 'a', 'wtype', 'id', 'tier', 'seed', 'selftest', 'mps', 'a_in', 'clip', 'ties', 'frozen_q')}
    m = FAMILIES[spec['fam']](**kw)
    dyadic_init(m, seed, den=8, lim=8)
    if spec['fam'] == 'M1A':
        with torch.no_grad():
            m.c1.weight.mul_(4)          # clearly different weight ranges in the two layers that share the quantizer
    # eps must be positive for MPS' own BatchNorm folding; keep var + eps a power of 4
    for mod in m.modules():
        if isinstance(mod, (nn.BatchNorm1d, nn.BatchNorm2d)):
            mod.eps = 0.0
    fam = spec['fam']
    if fam == 'MD':
        shape = (spec.get('cin', 1), spec.get('HW', 3), spec.get('HW', 3))
    elif fam == 'MA':
        shape = (spec.get('cin', 1), spec.get('HW', 2), spec.get('HW', 2))
    elif fam == 'MF':
        shape = (1, spec.get('T', 2), 1)
    elif fam == 'ML':
        shape = (spec.get('nin', 3),)
    else:
        shape = (spec.get('cin', 1), spec.get('T', 2))
    return m, shape


def make_mps(spec, seed=0, **kw):
    from plinio.methods import MPS
    from plinio.methods.mps import get_default_qinfo, MPSType
    model, shape = build(spec, seed)
    model.eval()
    args = dict(spec.get('mps', {}))
    args.update(kw)
    qinfo = get_default_qinfo(tuple(spec.get('w', (2, 8))), tuple(spec.get('a', (4, 8))))
    if spec.get('a_in'):
        # the network input searches a precision set of its own (different from the layers' activations)
        qinfo['input_default']['search_precision'] = tuple(spec['a_in'])
    wtype = MPSType.PER_CHANNEL if spec.get('wtype', 'layer') == 'channel' else MPSType.PER_LAYER
    torch.manual_seed(seed)
    m = MPS(model, input_shape=shape, qinfo=qinfo, w_search_type=wtype, **args)
    m.eval()
    if spec.get('clip'):
        trained_clips(m)
    return m, model, shape


def trained_clips(m):
    """move every PACT clipping threshold away from its initial value, as training does (dyadic values)"""
    from plinio.methods.mps.quant.quantizers import PACTAct
    vals = [3.0, 5.0, 2.5, 4.0, 7.0]
    k = 0
    seen = set()
    with torch.no_grad():
        for _, mod in m.named_modules():
            if isinstance(mod, PACTAct) and id(mod) not in seen:
                seen.add(id(mod))
                mod.clip_val.fill_(vals[k % len(vals)])
                k += 1
    return k


def quantizers(m):
    """distinct searchable quantizers (alpha with more than one candidate): [(qualified name, module)]"""
    from plinio.methods.mps.nn.qtz import MPSBaseQtz
    out, seen = [], set()
    for name, mod in m.named_modules():
        if isinstance(mod, MPSBaseQtz) and id(mod) not in seen and 'alpha' in mod._parameters:
            seen.add(id(mod))
            if mod.alpha.shape[0] > 1:
                out.append((name, mod))
    return out


def fresh_alphas(m, ex, gap=Fraction(1, 20), only=None, ties=False):
    """ties=False: coefficients of one decision pairwise `gap` apart.  ties=True: no gap; instead at least one decision has its
    maximum attained twice (the uniform initialisation is such a point)"""
    pairs, sy = [], {}
    tied = []
    for name, q in quantizers(m):
        if only is not None and not only(name):
            continue
        a = SymTensor.fresh(name.replace('.', '_'), tuple(q.alpha.shape))
        A = st.to_arr(a).reshape(a.shape[0], -1)
        for c in range(A.shape[1]):
            col = list(A[:, c])
            for i in range(len(col)):
                ex.assume(col[i] >= -2, col[i] <= 2)
                for j in range(i + 1, len(col)):
                    if ties:
                        tied.append(z3.And(col[i] == col[j], *[col[i] >= col[k] for k in range(len(col)) if k not in (i, j)]))
                    else:
                        ex.assume(z3.Or(col[i] - col[j] >= gap, col[j] - col[i] >= gap))
        pairs.append((q, 'alpha', a))
        sy[name] = a
    if ties:
        ex.assume(z3.Or(*tied))
    return pairs, sy


def set_alphas(m, values, how='nograd'):
    """how='nograd': in place under no_grad (bumps the version counter, as torch.optim does); how='data': through .data (it does not)"""
    byname = dict(quantizers(m))
    with torch.no_grad():
        for name, vals in values.items():
            q = byname[name]
            t = torch.tensor([float(Fraction(v)) for v in vals], dtype=torch.float32).reshape(q.alpha.shape)
            if how == 'data':
                q.alpha.data.copy_(t)
            else:
                q.alpha.copy_(t)


def values_of(mm, sy):
    return {n: [st.model_value(mm, v) for v in a.elems()] for n, a in sy.items()}


def grid_model(ex, sy, extra=(), den=16, bound=2):
    cons = []
    k = 0
    for a in sy.values():
        for v in a.elems():
            if st.is_sym(v):
                cons += [v * den == z3.ToReal(z3.Int(f'grid!{k}')), v >= -bound, v <= bound]
                k += 1
    r, m = ex.check(*extra, *cons, timeout_ms=20000)
    if r == 'sat':
        return m
    r, m = ex.check(*extra)
    return m if r == 'sat' else None


class saved_thetas:
    """restore the sampled coefficient buffers of every quantizer after a symbolic forward pass"""

    def __init__(self, m):
        from plinio.methods.mps.nn.qtz import MPSBaseQtz
        self.qs = [q for q in m.modules() if isinstance(q, MPSBaseQtz)]

    def __enter__(self):
        self.saved = [(q, q.theta_alpha) for q in self.qs]
        return self

    def __exit__(self, *a):
        for q, th in self.saved:
            q.theta_alpha = th
        return False


def exact_bit_costs(m, shape):
    """exact cost of the precision assignment summary() reports, from scratch:
    params_bit = sum over layers / channels of (alive inputs per group x kernel) x weight bits
    ops_bit    = the same x output positions x input bits"""
    from plinio.methods.mps.nn import MPSConv2d, MPSLinear
    try:
        from plinio.methods.mps.nn import MPSConv1d
    except Exception:
        MPSConv1d = ()
    summ = m.summary()
    # alive output channels per layer (0-bit = pruned)
    alive = {}
    layers = {}
    for name, mod in m.seed.named_modules():
        if isinstance(mod, (MPSConv2d, MPSLinear) + ((MPSConv1d,) if MPSConv1d else ())):
            layers[name] = mod
    pos = {}
    hooks = []
    for name, mod in layers.items():
        hooks.append(mod.register_forward_hook(lambda mo, i, o, _n=name: pos.setdefault(_n, []).append((tuple(i[0].shape), tuple(o.shape)))))    # one entry per invocation
    with torch.no_grad():
        m(torch.zeros((1,) + tuple(shape)))
    for h in hooks:
        h.remove()
    out = {'params_bit': 0, 'ops_bit': 0, 'layers': {}}
    for name, mod in layers.items():
        s = summ[name]
        wp = s['w_precision']
        cout = mod.out_features if isinstance(mod, MPSLinear) else mod.out_channels
        wps = wp if isinstance(wp, list) else [wp] * cout
        alive[name] = [b != 0 for b in wps]
        cin_alive = int(round(float(mod.input_features_calculator.features_mask.sum())))
        if isinstance(mod, MPSLinear):
            per_out, npos = cin_alive, 1
        else:
            k = 1
            for ki in mod.kernel_size:
                k *= ki
            dw = mod.groups == mod.in_channels and mod.groups == mod.out_channels and mod.groups > 1
            per_out = k if dw else cin_alive * k
            npos = 0
            for _, osh in pos[name]:
                q = 1
                for d in osh[2:]:
                    q *= d
                npos += q
        pb = sum(per_out * b for b in wps)
        out['params_bit'] += pb
        out['ops_bit'] += pb * npos * s['in_precision']
        out['layers'][name] = {'w_bits': wps, 'in_bits': s['in_precision'], 'cin_alive': cin_alive, 'params_bit': pb, 'ops_bit': pb * npos * s['in_precision']}
    return out
