#!/bin/bash
# usage: tools/confirm_mutant.sh <seeded dir> [base commit]
# Confirms a seeded change independently: demo passes on the base tree, fails with the patch, and the 132-test baseline is unchanged.
set -u
D="$(cd "$1" && pwd)"; BASE="${2:-bfd6014}"
W=$(mktemp -d /tmp/confirm.XXXXXX); rmdir "$W"
git -C /repo worktree add --detach "$W" "$BASE" >/dev/null 2>&1 || { echo "worktree failed"; exit 2; }
cd "$W"
export OMP_NUM_THREADS=1 PYTHONPATH="$W" PYTHONDONTWRITEBYTECODE=1
timeout 300 /venv/bin/python "$D/demo.py" >"$D/demo_base.log" 2>&1; R0=$?
git apply "$D/patch.diff" || { echo "patch does not apply"; git -C /repo worktree remove --force "$W"; exit 2; }
timeout 300 /venv/bin/python "$D/demo.py" >"$D/demo_mut.log" 2>&1; R1=$?
timeout 1500 /venv/bin/python -m pytest -q -p no:cacheprovider -n 12 --timeout=900 --continue-on-collection-errors unit_test -x --co -q >/dev/null 2>&1
timeout 1500 /venv/bin/python -m pytest -q -p no:cacheprovider -n 12 --timeout=900 --continue-on-collection-errors unit_test 2>&1 | tail -15 > "$D/tests_mut.log"
SUMMARY=$(tail -1 "$D/tests_mut.log")
cd /; git -C /repo worktree remove --force "$W"
echo "{\"base\": \"$BASE\", \"demo_exit_base\": $R0, \"demo_exit_mutated\": $R1, \"tests_with_mutation\": \"$SUMMARY\"}" > "$D/confirm.json"
cat "$D/confirm.json"
