#!/usr/bin/env python3
"""Regenerates MANIFEST.json from the property modules that exist (claimed) and the not-applicable table below."""
import importlib, json, os, sys
V = os.path.dirname(os.path.dirname(os.path.abspath(__file__)))
sys.path.insert(0, V)
ALL = [f"C{i:02d}" for i in range(1, 21)]
NOT_APPLICABLE = {
}
NOT_YET = "check not built yet in this revision of /verif (planned, see DESIGN.md section 4)"
LEVEL_TEXT = {
}
DEFAULT_TEXT = ("Bounded symbolic execution of the real implementation: tensors hold z3 terms, every data-dependent branch of the real code is "
                "explored with solver-decided feasibility, and each assertion is discharged as an unsat query over all values inside the "
                "stated bounds; counterexamples are replayed on the real code with plain torch before being reported. This is the "
                "right level because the property quantifies over real-valued parameters/inputs that sampling cannot cover.")
checks, na = [], []
for pid in ALL:
    path = os.path.join(V, 'props', pid.lower() + '.py')
    if pid in NOT_APPLICABLE:
        na.append({'property_id': pid, 'reason': NOT_APPLICABLE[pid]})
        continue
    if not os.path.exists(path):
        na.append({'property_id': pid, 'reason': NOT_YET})
        continue
    src = open(path).read()
    glb = {}
    # read the metadata constants without importing torch
    import ast
    tree = ast.parse(src)
    meta = {}
    for node in tree.body:
        if isinstance(node, ast.Assign) and len(node.targets) == 1 and isinstance(node.targets[0], ast.Name):
            n = node.targets[0].id
            if n in ('TECHNIQUE', 'BOUNDS', 'ASSUMPTIONS', 'OUTSIDE', 'LEVEL_TEXT', 'DESIGN_REF', 'HAS_THOROUGH'):
                try:
                    meta[n] = ast.literal_eval(node.value)
                except Exception:
                    pass
    c = {
        'property_id': pid,
        'quick_cmd': f'./check {pid} --tier quick',
        'thorough_cmd': f'./check {pid} --tier thorough',
        'evidence_file': f'evidence/{pid}.json',
        'replay_cmd_template': f'./check {pid} --replay {{path}}',
        'engine': 'symtorch+z3',
        'level_claimed': {'category': 'model_checking', 'text': meta.get('LEVEL_TEXT', DEFAULT_TEXT),
                          'design_ref': meta.get('DESIGN_REF', f'DESIGN.md section 4, {pid}')},
        'level_note': ('Bounds: quick = ' + str(meta.get('BOUNDS', {}).get('quick', '')) + ' | thorough = ' + str(meta.get('BOUNDS', {}).get('thorough', ''))
                       + ' | Assumes: ' + '; '.join(meta.get('ASSUMPTIONS', [])) + ' | Outside the claim: ' + '; '.join(meta.get('OUTSIDE', []))
                       + ' | Trusted base: CPython + torch front end (dispatch/autograd/fx), z3, the symtorch ATen handlers (differentially validated by ./check ENGINE).'),
        'technique': meta.get('TECHNIQUE', 'symbolic execution of the real code on z3-backed tensors'),
    }
    checks.append(c)
man = {
    'version': 1,
    'setup_cmd': './setup.sh',
    'hooks': {'guard': 'PLINIO_VERIF', 'enable': 'no hooks are needed: the checks import the unmodified plinio package from /repo and replace tensor contents through torch dispatch',
              'baseline_off_cmd': 'cd /repo && /venv/bin/python -m pytest -ra -q -p no:cacheprovider --timeout=900 --continue-on-collection-errors',
              'source_commits': [], 'add_only': True},
    'engines': [
        {'name': 'symtorch+z3', 'path': 'symtorch/', 'serves_properties': [c['property_id'] for c in checks],
         'kind_free_text': 'symbolic execution of the real PLiNIO classes: torch.Tensor wrapper subclass whose elements are exact rationals or z3 terms (__torch_dispatch__), DFS path exploration with solver-decided branch feasibility, obligations discharged by z3 (unsat = holds within bounds), counterexamples replayed on plain torch'},
        {'name': 'crosshair', 'path': 'props/', 'serves_properties': ['C15', 'C14'],
         'kind_free_text': 'CrossHair 0.0.110 (z3-backed symbolic execution of pure-Python code) as a second engine for CostSpec lookup and binary_search'},
    ],
    'checks': checks,
    'not_applicable': na,
    'notes': 'All checks import plinio from /repo working tree at run time (no copy). Exit 0 = all obligations unsat & witnesses sat; 1 = replayed, unlisted counterexample; 3 = inconclusive / harness error. Known findings: known_findings.txt.',
}
json.dump(man, open(os.path.join(V, 'MANIFEST.json'), 'w'), indent=1)
print('claimed:', [c['property_id'] for c in checks])
print('not claimed:', [n['property_id'] for n in na])
