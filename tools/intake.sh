#!/bin/bash
# usage: tools/intake.sh <agent worktree> <property id>   -- copies <wt>/MUTANT into seeded/<id>-<next>, confirms independently, removes the worktree
WT="$1"; P="$2"
cd /verif
[ -f "$WT/MUTANT/patch.diff" ] && [ -f "$WT/MUTANT/demo.py" ] || { echo "no MUTANT deliverables in $WT"; exit 2; }
n=1; while [ -e "seeded/$P-$n" ]; do n=$((n+1)); done
D="seeded/$P-$n"; mkdir -p "$D"
cp "$WT/MUTANT/patch.diff" "$WT/MUTANT/demo.py" "$WT/MUTANT/meta.json" "$D/" 2>/dev/null
# agents wrote absolute worktree paths into demo.py: make them relative to PYTHONPATH / cwd
sed -i "s#$WT#.#g" "$D/demo.py"
git -C /repo worktree remove --force "$WT"
tools/confirm_mutant.sh "$D" "$(git -C /repo rev-parse --short HEAD)"
echo "$D"
