#!/bin/bash
# usage: tools/try_mutant.sh <seeded dir> <check args...>   -- applies the patch to /repo, runs ./check, reverts
D="$(cd "$1" && pwd)"; shift
cd /verif
P="$D/patch.diff"; [ -f "$D/patch_on_fixed.diff" ] && P="$D/patch_on_fixed.diff"; git -C /repo apply "$P" || { echo "PATCH DOES NOT APPLY"; exit 2; }
./check "$@" --no-evidence 2>&1 | grep -v "^  File\|^    \|^Trace\|^$" | cut -c1-400 | head -${LINES_MAX:-12}
git -C /repo checkout -- . 
git -C /repo status --short | head -3
