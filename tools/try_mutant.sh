#!/bin/bash
# usage: tools/try_mutant.sh <seeded dir> <check args...>   -- applies the patch to /repo, runs ./check, reverts
D="$(cd "$1" && pwd)"; shift
cd /verif
git -C /repo apply "$D/patch.diff" || { echo "PATCH DOES NOT APPLY"; exit 2; }
./check "$@" --no-evidence 2>&1 | grep -v "^  File\|^    \|^Trace\|^$" | cut -c1-400 | head -${LINES_MAX:-12}
git -C /repo checkout -- . 
git -C /repo status --short | head -3
