#!/bin/bash
# usage: tools/sweep_seeded.sh [parallelism] [ids...]   -- runs the quick tier of the owning check against every seeded change (scratch worktree of /repo's HEAD
# with the change applied, VERIF_REPO), writes one line per change to seeded/SWEEP.txt:  <id> <exit code> <#VIOLATION lines> <#HARNESS/INCONCLUSIVE lines> <wall s> <first key>
cd "$(dirname "$0")/.."
P=${1:-2}; shift
ids=${@:-$(ls seeded | grep "^C[0-9][0-9]-[0-9]*$")}
one() {
  id=$1; p=${id%%-*}; d=$PWD/seeded/$id
  W=$(mktemp -d /tmp/swp.XXXXXX); rmdir "$W"
  git -C /repo worktree add --detach "$W" HEAD >/dev/null 2>&1 || { echo "$id worktree-failed"; return; }
  pf="$d/patch.diff"; [ -f "$d/patch_on_fixed.diff" ] && pf="$d/patch_on_fixed.diff"
  if ! git -C "$W" apply "$pf" 2>/dev/null; then echo "$id patch-does-not-apply"; git -C /repo worktree remove --force "$W"; return; fi
  s=$(date +%s)
  out=$(VERIF_REPO="$W" ./check $p --tier quick --no-evidence 2>&1); rc=$?
  v=$(echo "$out" | grep -c "^VIOLATION"); h=$(echo "$out" | grep -c "^HARNESS-ERROR\|^INCONCLUSIVE")
  k=$(echo "$out" | grep -A1 "^VIOLATION" | grep "key=" | head -1 | sed 's/ :: .*//' | cut -c1-160)
  echo "$id rc=$rc viol=$v other=$h wall=$(( $(date +%s) - s ))s $k"
  git -C /repo worktree remove --force "$W"
}
export -f one
printf "%s\n" $ids | xargs -P $P -I{} bash -c 'one {}' | tee seeded/SWEEP.txt.tmp
sort seeded/SWEEP.txt.tmp > seeded/SWEEP.txt; rm -f seeded/SWEEP.txt.tmp
