#!/bin/bash
# usage: tools/try_mutant_wt.sh <seeded dir> <check args...>
# like try_mutant.sh but in a scratch worktree of /repo's HEAD (VERIF_REPO), so /repo itself stays untouched
D="$(cd "$1" && pwd)"; shift
cd /verif
W=$(mktemp -d /tmp/mwt.XXXXXX); rmdir "$W"
git -C /repo worktree add --detach "$W" HEAD >/dev/null 2>&1 || { echo "worktree failed"; exit 2; }
P="$D/patch.diff"; [ -f "$D/patch_on_fixed.diff" ] && P="$D/patch_on_fixed.diff"
git -C "$W" apply "$P" || { echo "PATCH DOES NOT APPLY"; git -C /repo worktree remove --force "$W"; exit 2; }
VERIF_REPO="$W" ./check "$@" --no-evidence 2>&1 | grep -v "^  File\|^    \|^Trace\|^$\|conda" | cut -c1-400 | head -${LINES_MAX:-12}
git -C /repo worktree remove --force "$W"
