#!/usr/bin/env python3
"""merge confirm.json and the detection result into seeded/<id>/meta.json"""
import json, os, glob
V = os.path.dirname(os.path.dirname(os.path.abspath(__file__)))
CAUGHT = {
 'C01-1': ('C01', 'repaired tree'), 'C01-2': ('C01', 'repaired tree'), 'C02-1': ('C02', 'repaired tree'), 'C02-2': ('C02', 'repaired tree'),
 'C03-1': ('C03', 'pinned tree + change (the fix 579c73c rewrote the mutated lines; selection by position removes this mutation class)'),
 'C03-2': ('C03', 'pinned tree + change (same lines as fix 579c73c)'),
 'C04-1': ('C04', 'repaired tree; check strengthened with program R4'), 'C04-2': ('C04', 'repaired tree; check strengthened with the dict+reassign mode'),
 'C05-1': ('C05', 'repaired tree'), 'C05-2': ('C05', 'repaired tree; check strengthened with train+hard instances'),
 'C06-1': ('C06', 'repaired tree with patch_on_fixed.diff; check strengthened with stem2 programs'), 'C06-2': ('C06', 'repaired tree; check strengthened with kind dw'),
 'C07-1': ('C07', 'repaired tree'), 'C07-2': ('C07', 'repaired tree'),
 'C08-1': ('C08', 'pinned tree + change; on the repaired tree the change no longer breaks the property (its own demo passes) because fix 664516b anchors both keep-alive elements at the last tap'),
 'C08-2': ('C08', 'repaired tree; check strengthened with T1 tail variants'),
 'C09-1': ('C09', 'repaired tree'), 'C09-2': ('C09', 'repaired tree; check strengthened with K2(dim=-1)'),
 'C10-1': ('C10', 'repaired tree'), 'C10-2': ('C10', 'repaired tree'), 'C11-1': ('C11', 'repaired tree'), 'C11-2': ('C11', 'repaired tree'),
 'C12-1': ('C12 (and C04)', 'repaired tree; check strengthened with the assignment-independence clause'), 'C12-2': ('C12', 'repaired tree; check strengthened with the discrete-cost gradient clause'),
 'C13-1': ('C13', 'repaired tree'), 'C13-2': ('C13', 'repaired tree'), 'C14-1': ('C14', 'repaired tree'), 'C14-2': ('C14', 'repaired tree; net F added to the quick tier'),
 'C15-1': ('C15', 'pinned tree + change (same lines as fix 019debd)'), 'C15-2': ('C15', 'pinned tree + change (same lines as fix 019debd)'),
 'C16-1': ('C16', 'repaired tree'), 'C16-2': ('C16', 'repaired tree'),
 'C17-1': ('C17', 'repaired tree; check strengthened with the train_forward prefix on a Gumbel SuperNet'), 'C17-2': ('C17', 'repaired tree; check strengthened with a disable_sampling instance'),
 'C18-1': ('C18', 'repaired tree'), 'C18-2': ('C18 (and C06)', 'repaired tree; check strengthened with the pristine-twin comparison'),
 'C19-1': ('C19', 'repaired tree'), 'C19-2': ('C19', 'repaired tree'), 'C20-1': ('C20', 'repaired tree; check strengthened with 64-channel count instances'), 'C20-2': ('C20', 'repaired tree'),
}
# later waves: the detection result comes from the last full sweep (tools/sweep_seeded.sh -> seeded/SWEEP.txt); STRENGTHENED names the class of
# instances that was added to the check after the change was first missed (DESIGN.md I.9 / I.10)
STRENGTHENED = {
 'C01-4': 'BatchNorm with generic eps; eps no longer copied by the harness', 'C02-5': 'written_params: coefficients written through .data into an evaluated model', 'C02-6': 'program M1A',
 'C03-6': 'nested choice blocks', 'C04-6': 'discrete_cost switched on in a later phase', 'C05-5': 'program MR', 'C06-6': 'Gumbel + hard + eval mode', 'C07-6': 'mixed-mode models, BatchNorm stem',
 'C08-5': 'program O1 (dict / nested outputs)', 'C09-5': 'program W2', 'C09-6': 'program A2', 'C10-5': 'summary/export before the forward pass, per-channel, arg-max oracle',
 'C10-6': 'combiner re-sampled after an update (written_params)', 'C11-6': 'pattern of the recorded finding narrowed to the two calls it describes', 'C12-5': 'per-channel 0-bit instances under hard sampling',
 'C13-5': 'quantizer observed after an earlier call on the same Parameter', 'C14-5': 'integer network built right after a checkpoint is loaded', 'C14-6': 'nets whose only large biases are negative',
 'C17-4': 'train_net_only prefix; requires_grad kept by symbolify', 'C17-5': 'storage aliasing kept by symbolify; per-layer temperatures', 'C18-5': 'PIT config with an excluded layer and full_cost',
 'C19-6': 'integer-typed targets', 'C01-7': 'program X2', 'C09-8': 'MPS program MF', 'C03-8': 'frozen-selection phase', 'C04-8': 'D2(C=5)', 'C06-8': 'two-stage program', 'C07-8': 'userdrop block',
 'C11-8': 'exploration past the recorded deviation; phase sequences of length 4', 'C14-8': 'narrow-integer overflow guards; tight-clip nets', 'C15-8': 'generic_twice', 'C16-8': 'depthwise->grouped monotonicity', 'C19-8': 'first_metric_within_target', 'C01-6': 'search-phase instances (after=)', 'C02-7': 'padded-conv programs, pad handlers', 'C04-7': 'program K4', 'C05-7': 'cost read with and without autograd',
 'C06-7': 'hard Gumbel sampling in training mode', 'C08-7': 'search-phase instances (after=)', 'C09-7': 'program Q2 (on the tree before e4c0b47)', 'C10-7': 'checkpoint restored into an evaluated model; one-hot check',
 'C11-7': 'two-block SuperNet with per-block reference', 'C12-6': 'gap8 on L1, cost read twice', 'C14-7': 'wiring obligation', 'C15-7': 'two anonymous user constraints', 'C16-7': 'rejected supported precision is a violation',
 'C17-6': 'train_nas_only prefix', 'C18-7': 'individually frozen shared quantizer', 'C19-7': 'model stub with its own spec order', 'C20-7': 'count instances with pruned channels', 'C20-3': 'recorded greedy as an executable reference (unrecorded| keys)', 'C20-4': 'canonical score model with per-assignment keys',
}
SWEEP = {}
sp = os.path.join(V, 'seeded', 'SWEEP.txt')
if os.path.exists(sp):
    for line in open(sp):
        parts = line.split()
        if parts:
            SWEEP[parts[0]] = line.strip()
for d in sorted(glob.glob(os.path.join(V, 'seeded', 'C*'))):
    sid = os.path.basename(d)
    mp = os.path.join(d, 'meta.json')
    if not os.path.exists(mp):
        continue
    try:
        meta = json.load(open(mp))
    except Exception:
        meta = {'raw': open(mp).read()}
    meta['property'] = sid.split('-')[0]
    cp = os.path.join(d, 'confirm.json')
    if os.path.exists(cp):
        c = json.load(open(cp))
        meta['confirmed_independently'] = {'how': 'tools/confirm_mutant.sh in a fresh scratch worktree of the pinned commit: demo on the base tree, demo with the patch, full test-suite with the patch',
                                           'base_commit': c['base'], 'demo_exit_on_base_tree': c['demo_exit_base'], 'demo_exit_with_change': c['demo_exit_mutated'], 'test_suite_with_change': c['tests_with_mutation'],
                                           'ok': c['demo_exit_base'] == 0 and c['demo_exit_mutated'] != 0 and '132 passed' in c['tests_with_mutation'] and '9 failed' in c['tests_with_mutation']}
    if sid in CAUGHT:
        meta['detected_by_check'] = CAUGHT[sid][0]
        meta['detected_on'] = CAUGHT[sid][1]
        meta['how_run'] = f'tools/try_mutant.sh seeded/{sid} {CAUGHT[sid][0].split()[0]}  (git -C /repo apply; ./check <id>; git -C /repo checkout -- .)' if 'pinned' not in CAUGHT[sid][1] else \
            f'git -C <scratch worktree of bfd6014> apply seeded/{sid}/patch.diff; VERIF_REPO=<worktree> ./check {CAUGHT[sid][0].split()[0]}'
    if sid not in CAUGHT and sid in SWEEP:
        line = SWEEP[sid]
        meta['detected_by_check'] = sid.split('-')[0] if ' viol=0 ' not in line and 'viol=' in line else None
        meta['sweep_result'] = line
        meta['how_run'] = 'tools/sweep_seeded.sh: scratch worktree of /repo HEAD with the change applied, VERIF_REPO=<worktree> ./check <property> --tier quick'
        if sid in STRENGTHENED:
            meta['check_strengthened_with'] = STRENGTHENED[sid]
    json.dump(meta, open(mp, 'w'), indent=1)
    for junk in ('demo_base.log', 'demo_mut.log', 'tests_mut.log'):
        pth = os.path.join(d, junk)
        if os.path.exists(pth) and os.path.getsize(pth) > 20000:
            open(pth, 'w').write(open(pth).read()[-4000:])
print('done')
