#!/bin/bash
# run every check of one tier sequentially on /repo's working tree, writing evidence; summary lines go to stdout
# usage: tools/run_all.sh [quick|thorough] [ids...]
cd "$(dirname "$0")/.."
tier=${1:-quick}; shift
ids=${@:-C01 C02 C03 C04 C05 C06 C07 C08 C09 C10 C11 C12 C13 C14 C15 C16 C17 C18 C19 C20}
for p in $ids; do
  s=$(date +%s)
  out=$(./check $p --tier $tier 2>&1); rc=$?
  echo "$p rc=$rc wall=$(( $(date +%s) - s ))s $(echo "$out" | grep "^\[$p\]" | cut -c1-230)"
  echo "$out" | grep "^VIOLATION\|^HARNESS-ERROR\|^INCONCLUSIVE" | cut -c1-300 | head -5
done
