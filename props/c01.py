"""C01 - PIT export computes the same function as the searched (masked) network.

alpha, beta, gamma of every searchable layer and the network input are z3 reals; for the single-layer family T1 the
weights and bias of the searched convolution are symbolic too.  The real PIT forward, export() (graph rewrite, weight
slicing, padding / BatchNorm re-creation) and the exported network run on these tensors; the engine forks on every
data-dependent decision of export (mask bits), so every reachable binarised mask combination is one path, and on each path
   exists x . PIT.eval()(x) != export().eval()(x)      is sent to z3 and must be unsat (exact real arithmetic, no tolerance).
"""
import copy
import time
from fractions import Fraction

import numpy as np
import torch
import torch.nn as nn
import z3

import symtorch as st
from symtorch import Explorer, SymMode, SymTensor, swapped_params
from vlib import pitlib
from vlib.harness import InstanceResult, jsonable

PROPERTY = 'C01'
TECHNIQUE = 'symbolic execution of the real PIT forward + export on z3-real masks, inputs (and weights for single-layer programs); per mask path an unsat query "some input distinguishes NAS model and exported model"'
FUNCTIONS_ENCODED = ['PITFeaturesMasker/PITTimestepMasker/PITDilationMasker.theta', 'PITBinarizer', 'PITConv1d/PITConv2d/PITLinear.forward', 'PITConv1d._time_mask/kernel_size_opt/dilation_opt',
                     'PITConv1d/PITConv2d/PITLinear.export', 'PITBatchNorm1d/2d.export', 'pit/graph.py convert(export)/export_node', 'ModAttr/Flatten/Concat/ConstFeaturesCalculator.features_mask',
                     'PIT.export', 'PIT.summary']
BOUNDS = {'quick': 'T1: K=1..9, d0 in {1,2}, C in {1,2}, stride 1, symbolic weights for K<=5; whole nets T2, A1, K1(s+s), D2, L1 (fold_bn off), T = rf + 2 timesteps, 3x3 images; D2 / T2 / L1 with BatchNorm eps of the order of the variances (the re-created BatchNorm must carry eps itself: only statistics/affine are copied); T1(K=3) and T2 with the masks written through .data / in place into a model that was already evaluated, summarised and exported',
          'thorough': 'T1: K=1..9 x d0=1..3 x stride 1..2 x C=1..3 (symbolic weights for K<=6); T2/D2/L1 fold_bn on+off, A1 (+depthwise), K1 all origin pairs and a 3-way concat, K2, R2; a second independent weight assignment (VERIF_SEED)'}
OUTSIDE = ['float32 round-off (exact real arithmetic: any difference is a counterexample)', 'inputs longer than rf + 2 (the convolution is shift-invariant)', "padding='same' convolutions (documented as not function-preserving under RF pruning)",
           'architectures outside the grammar', 'whole-network programs use one generic dyadic weight assignment (multilinearity argument, DESIGN 2.3)']
ASSUMPTIONS = ['causal left padding by ConstantPad1d as prescribed by the PIT README', 'each BatchNorm re-created by export receives the statistics/affine of the fused BatchNorm it replaces, sliced by the output mask',
               'BatchNorm statistics are dyadic (var + eps a power of 4, eps = 0) so that folding is exact']
INSTANCE_TIMEOUT_S = {'quick': 1500, 'thorough': 3600}
Q = 60000


def instances(tier, seed):
    out = []
    progs = []
    if tier == 'quick':
        for K in range(1, 10):
            progs.append(({'fam': 'T1', 'K': K, 'd0': 1, 's': 1, 'C': 2}, K <= 5))
        for K in (2, 4, 5):
            progs.append(({'fam': 'T1', 'K': K, 'd0': 2, 's': 1, 'C': 1}, K <= 4))
        progs += [({'fam': 'T1', 'K': 3, 'd0': 1, 's': 2, 'C': 2}, False), ({'fam': 'T2', 'K0': 3, 'K1': 2}, False), ({'fam': 'A1', 'K': 2, 'C': 2}, False),
                  ({'fam': 'K1', 'origins': ['s', 's']}, False), ({'fam': 'D2', 'C': 2}, False), ({'fam': 'L1'}, False),
                  # BatchNorm with eps of the order of the running variances: the re-created BatchNorm must carry the hyper-parameters of the one it replaces
                  ({'fam': 'X2', 'via': 'direct', 'exclude': 'name'}, False), ({'fam': 'X2', 'via': 'cat', 'exclude': 'name'}, False),
                  ({'fam': 'D2', 'C': 2, 'bn_stats': 'generic'}, False), ({'fam': 'T2', 'K0': 2, 'K1': 1, 'T': 2, 'bn_stats': 'generic'}, False), ({'fam': 'L1', 'bn_stats': 'generic'}, False)]
    else:
        for K in range(1, 10):
            for d0 in (1, 2, 3):
                for s in (1, 2):
                    for C in ((1, 2, 3) if (d0 == 1 and s == 1) else (2,)):
                        progs.append(({'fam': 'T1', 'K': K, 'd0': d0, 's': s, 'C': C}, K <= 6 and C <= 2 and s == 1))
        progs += [({'fam': 'T1', 'K': 4, 'C': 2, 'bias': False}, True), ({'fam': 'T1', 'K': 3, 'C': 2, 'tail': 'relu'}, False)]
        for fold in (False, True):
            progs += [({'fam': 'T2', 'K0': 3, 'K1': 2, 'pit': {'fold_bn': fold}}, False), ({'fam': 'T2', 'K0': 4, 'K1': 3, 'lin_bn': False, 'pit': {'fold_bn': fold}}, False),
                      ({'fam': 'D2', 'C': 2, 'pit': {'fold_bn': fold}}, False), ({'fam': 'L1', 'pit': {'fold_bn': fold}}, False)]
        progs += [({'fam': 'A1', 'K': 2, 'C': 2}, False), ({'fam': 'A1', 'K': 3, 'C': 3}, False), ({'fam': 'A1', 'K': 2, 'C': 2, 'dw': True}, False)]
        for a in 'sfi':
            for b in 'sfi':
                progs.append(({'fam': 'K1', 'origins': [a, b]}, False))
        progs += [({'fam': 'K1', 'origins': ['s', 'f', 's']}, False), ({'fam': 'K2'}, False), ({'fam': 'D2', 'C': 3, 'pool': 'avg'}, False),
                  ({'fam': 'D2', 'C': 2, 'pool': 'none', 'bn': False}, False), ({'fam': 'R2'}, False)]
        for fold in (False, True):
            progs += [({'fam': 'D2', 'C': 2, 'bn_stats': 'generic', 'pit': {'fold_bn': fold}}, False), ({'fam': 'T2', 'K0': 2, 'K1': 1, 'T': 2, 'bn_stats': 'generic', 'pit': {'fold_bn': fold}}, False),
                      ({'fam': 'L1', 'bn_stats': 'generic', 'pit': {'fold_bn': fold}}, False)]
    for spec, symw in progs:
        out.append({'id': pitlib.prog_id(spec) + (':symw' if symw else ''), 'spec': spec, 'symw': symw, 'wseed': seed})
    # another phase of the search: the masks keep their values but are no longer trained (train_features / train_rf / train_dilation switched off,
    # train_net_only()); the exported network must still be the masked one
    ph = [({'fam': 'D2', 'C': 2}, [['train_features', False]]), ({'fam': 'L1'}, [['train_features', False]]), ({'fam': 'T1', 'K': 3, 'd0': 1, 's': 1, 'C': 2}, [['train_rf', False], ['train_dilation', False]]),
          ({'fam': 'T1', 'K': 4, 'd0': 1, 's': 1, 'C': 2}, [['train_net_only', 'call']])]
    if tier != 'quick':
        ph += [({'fam': 'T2', 'K0': 3, 'K1': 2}, [['train_net_only', 'call']]), ({'fam': 'A1', 'K': 2, 'C': 2}, [['train_features', False], ['train_rf', False]]), ({'fam': 'T1', 'K': 5, 'd0': 1, 's': 1, 'C': 2}, [['train_rf', False]])]
    for spec, after in ph:
        sp = dict(spec, after=after)
        out.append({'id': pitlib.prog_id(sp), 'spec': sp, 'symw': False, 'wseed': seed})
    # the masks are written (through .data / in place under no_grad) into a model that has already been evaluated, summarised and exported
    # at its previous masks: nothing derived from the old values may survive
    hp = [{'fam': 'T1', 'K': 3, 'd0': 1, 's': 1, 'C': 2}, {'fam': 'T2', 'K0': 2, 'K1': 1, 'T': 2}] + ([{'fam': 'D2', 'C': 2}, {'fam': 'A1', 'K': 2, 'C': 2}] if tier != 'quick' else [])
    for spec in hp:
        for hist in ('data', 'nograd'):
            out.append({'id': pitlib.prog_id(spec) + f':after_use+{hist}', 'spec': spec, 'symw': False, 'wseed': seed, 'hist': hist})
    return out


# ---------------------------------------------------------------------------------------------------------------------
def concrete_compare(spec, wseed, masks, xvals, weights=None, hist=None, nograd=True):
    """plain torch: returns (max abs difference, info) between PIT.eval() and export().eval()"""
    pit, model, shape = pitlib.make_pit(spec, wseed)
    if hist:
        with torch.no_grad():
            pit(torch.zeros((1,) + tuple(shape)))
            pit.summary()
            pit.export()
    if weights:
        with torch.no_grad():
            for name, vals in weights.items():
                mod, pname = name.rsplit('.', 1)
                p = getattr(pit.seed.get_submodule(mod), pname)
                p.copy_(torch.tensor([float(Fraction(v)) for v in vals], dtype=torch.float32).reshape(p.shape))
    pitlib.set_masks(pit, masks, hist or 'nograd')
    x = torch.tensor([float(Fraction(v)) for v in xvals], dtype=torch.float32).reshape((1,) + tuple(shape))
    with (torch.no_grad() if nograd else torch.enable_grad()):
        y0 = pit(x)
        try:
            e = pit.export()
            pitlib.copy_bn_stats(pit, e)
            y1 = e.eval()(x)
        except Exception as ex_:
            return float('inf'), f'export/run raised {type(ex_).__name__}: {ex_}'
    if tuple(y0.shape) != tuple(y1.shape):
        return float('inf'), f'shape {tuple(y0.shape)} vs {tuple(y1.shape)}'
    d = float((y0.detach() - y1.detach()).abs().max())
    return d, f'PIT={y0.reshape(-1).tolist()} exported={y1.reshape(-1).tolist()} summary={pit.summary()}'


def replay(rec):
    d, info = concrete_compare(rec['spec'], rec.get('wseed', 0), rec['masks'], rec['x'], rec.get('weights'), rec.get('hist'))
    if d <= 1e-4:
        # the comparison is legitimate with and without autograd recording (the symbolic run records): try the other mode too
        d2, info2 = concrete_compare(rec['spec'], rec.get('wseed', 0), rec['masks'], rec['x'], rec.get('weights'), rec.get('hist'), nograd=False)
        if d2 > d:
            d, info = d2, 'with autograd enabled: ' + info2
    scale = max(1.0, max(abs(float(Fraction(v))) for v in rec['x']) if rec['x'] else 1.0)
    return d > 1e-4 * scale, f'max|PIT - exported| = {d}; {info}'[:900]


def run_instance(p):
    res = InstanceResult(p['id'])
    spec, wseed, symw, selftest = p['spec'], p.get('wseed', 0), p.get('symw', False), p.get('selftest', False)
    pit, model, shape = pitlib.make_pit(spec, wseed)
    hist = p.get('hist')

    def prefix():
        with torch.no_grad():
            pit(torch.zeros((1,) + tuple(shape)))
            pit.summary()
            pit.export()
    wnames = []
    if symw:
        for lname, layer in pitlib.pit_layers(pit):
            if lname == 'c0':
                wnames = [(layer, 'weight', 'c0.weight')] + ([(layer, 'bias', 'c0.bias')] if layer.bias is not None else [])

    def fn(ex):
        pairs, sy = pitlib.fresh_masks(pit)
        wsy = {}
        for layer, pname, qn in wnames:
            w = SymTensor.fresh(qn.replace('.', '_'), tuple(getattr(layer, pname).shape))
            pairs.append((layer, pname, w))
            wsy[qn] = w
        with SymMode(), (st.written_params(pairs, prefix, hist) if hist else swapped_params(pairs)):
            x = SymTensor.fresh('x', (1,) + tuple(shape))
            y0 = pit(x)
            try:
                e = pit.export()
                pitlib.copy_bn_stats(pit, e)
                y1 = e.eval()(x)
                err = None
            except Exception as ex_:
                y1, err = None, f'{type(ex_).__name__}: {ex_}'[:200]
            summ = None
            if err is None:
                summ = {k: {a: (list(b) if isinstance(b, tuple) else b) for a, b in v.items()} for k, v in pit.summary().items() if 'out_features' in v}
        return sy, wsy, x, y0, y1, err, summ
    ex = Explorer(timeout_ms=Q)
    n = 0
    seen = set()
    for pc, (sy, wsy, x, y0, y1, err, summ) in ex.explore(fn):
        n += 1
        allsy = dict(sy)
        if err is not None or tuple(y0.shape) != tuple(y1.shape):
            bad = True
            obs = 'export_raised' if err else 'shape_differs'
        else:
            bad = st.any_differs(y0, y1)
            if selftest and n % 3 == 1:
                bad = st.any_differs(y0, y1 + 1)
            obs = 'output_differs'
        if bad is False:
            res.oblige(True)     # the two output terms are syntactically identical
            r = 'unsat'
        else:
            r, m = ex.check(bad) if bad is not True else ex.check()
            if r == 'unknown':
                res.inconclusive.append(f'path {n}: equivalence query unknown')
                continue
            if bad is True:
                r = 'sat'
            res.oblige(r == 'unsat')
        if r == 'sat':
            sig = (obs, str(sorted((k, tuple(v.get('kernel_size', [])), tuple(v.get('dilation', []))) for k, v in (summ or {}).items())))
            if sig in seen and len(seen) > 3:
                continue
            seen.add(sig)
            extra = [bad] if bad is not True else []
            m2, _ = pitlib.grid_model(ex, dict(allsy, **wsy, x=x), extra, den=16, bound=8)
            m2 = m2 or m
            rec = {'spec': spec, 'wseed': wseed, 'masks': pitlib.values_of(m2, sy), 'x': pitlib.input_values(m2, x),
                   'weights': {k: [st.model_value(m2, v) for v in w.elems()] for k, w in wsy.items()} or None,
                   'observable': obs, 'summary': summ, 'err': err, 'hist': hist}
            ks = ''
            if summ and 'c0' in summ and 'kernel_size' in summ['c0']:
                ks = f"|c0:k={summ['c0']['kernel_size']},d={summ['c0']['dilation']}"
            rec['key'] = f'{pitlib.prog_id(spec)}' + (f':after_use+{hist}' if hist else '') + f'|{obs}{ks}' + ('|selftest' if selftest else '')
            rec['what'] = f'{pitlib.prog_id(spec)}: exported network differs from the PIT model ({obs}) at summary {summ} {err or ""}'
            if selftest:
                res.violations.append(jsonable(rec))
                continue
            okr, msg = replay(jsonable(rec))
            if okr:
                rec['replay_msg'] = msg
                res.violations.append(jsonable(rec))
            else:
                res.errors.append(f'counterexample did not reproduce on the real code: {rec["key"]}: {msg[:500]}')
        else:
            # concolic validation: one model of the path, real code, plain torch
            if n <= 6 or n % 5 == 0:
                m2, grid = pitlib.grid_model(ex, dict(allsy, **wsy, x=x), [], den=16, bound=8)
                if m2 is not None:
                    masks, xv = pitlib.values_of(m2, sy), pitlib.input_values(m2, x)
                    weights = {k: [st.model_value(m2, v) for v in w.elems()] for k, w in wsy.items()} or None
                    d, info = concrete_compare(spec, wseed, masks, xv, weights, hist)
                    if n <= 2:
                        res.sample({'program': pitlib.prog_id(spec), 'summary': summ, 'masks': masks, 'x': xv, 'max_abs_diff_torch': d})
                    if d <= 1e-3:
                        res.validated += 1
                    else:
                        res.errors.append(f'engine says equivalent but plain torch differs by {d} on {pitlib.prog_id(spec)} masks={jsonable(masks)}: {info[:300]}')
    res.witnesses += 1
    res.witnesses_ok += 1 if ex.n_paths >= 1 else 0
    res.absorb(ex)
    return res
