"""C07 - importing a model is behaviour-preserving and leaves the user model intact.

The network input is a vector of z3 reals (all masks open = their concrete initial value).  For every program and
configuration (fold_bn on/off, model handed over in train or eval mode, PIT / SuperNet):
   exists x . wrapper.eval()(x) != model.eval()(x)              must be unsat  (exact: BatchNorm statistics are dyadic)
   exists x . wrapper.export().eval()(x) != model.eval()(x)     must be unsat, exported hyper-parameters == original ones
   exists x . model.eval()(x) after conversion != before        must be unsat
and the concrete side conditions observed on the same run: state_dict of the user's model bit-identical, .training of the
wrapper / seed / user's model as found (PIT, MPS).
"""
import copy
import time
from fractions import Fraction

import numpy as np
import torch
import torch.nn as nn
import z3

import symtorch as st
from symtorch import Explorer, SymMode, SymTensor
from vlib import pitlib, snlib
from vlib.harness import InstanceResult, jsonable

PROPERTY = 'C07'
TECHNIQUE = 'symbolic execution of original, wrapped and immediately exported networks on z3-real inputs; three unsat equivalence queries per program/configuration + concrete mode / state_dict observations'
FUNCTIONS_ENCODED = ['PIT.__init__', 'pit/graph.py convert(autoimport|import)/autoimport_node/fuse_pit_modules/remove_bn_inplace', 'fuse_consecutive_layers', 'PITConv1d/PITConv2d/PITLinear.__init__/forward (open masks)',
                     'PIT.export (immediate)', 'SuperNet.__init__/forward/export', 'supernet/graph.py convert(import)', 'MPS.__init__ (mode handling)']
BOUNDS = {'quick': 'T2 (+no linear BN), D2, A1, L1, B1 (BatchNorm applied out of trace order), T1 bias-free, M2 (two-input forward), T2 with a strided first conv, T2/D2 with generic BatchNorm statistics (eps=1/8, var in {1/64,1/16,0.3}; outputs compared up to 1e-3 on the box |x|<=2) x fold_bn {off,on} x handed over in {eval, train} mode; SuperNet S(2..3, conv/seq/mix); MPS mode handling on D2/L1; models handed over in mixed mode (training parent, frozen child): flags of every BatchNorm / Dropout of the user\'s model; program Z1 (Dropout shared between the user\'s model and the converted one); SuperNet with a conv+BatchNorm stem',
          'thorough': 'same + K1/K2/W1/F1/X1 programs, user-placed PIT layers with autoconvert off, SuperNet with 2 blocks / block used twice'}
OUTSIDE = ['train-mode BatchNorm arithmetic (only the flags are observed in train mode)', 'float32 round-off of BN folding with non-dyadic statistics below 1e-3 absolute on |x|<=2', 'MPS folds BatchNorm into the user layers in place (exempted by the statement)']
ASSUMPTIONS = ['dyadic BatchNorm statistics (var + eps a power of 4, eps = 0): folding is exact in float32 (exact equality demanded); bn_stats=generic programs: equality up to 1e-3', 'generic dyadic weights']
INSTANCE_TIMEOUT_S = {'quick': 1200, 'thorough': 3000}
Q = 60000


class B1(nn.Module):
    """two parallel Conv-BN pairs whose BatchNorms are applied later and in the opposite order of the convolutions"""

    def __init__(self, C=2):
        super().__init__()
        self.ca = nn.Conv1d(1, C, 1)
        self.cb = nn.Conv1d(1, C, 1)
        self.bna = nn.BatchNorm1d(C)
        self.bnb = nn.BatchNorm1d(C)
        self.out = nn.Conv1d(C, 2, 1)

    def forward(self, x):
        a = self.ca(x)
        b = self.cb(x)
        a = self.bna(a)
        b = self.bnb(b)
        return self.out(torch.relu(a) + torch.relu(b))


class B2(nn.Module):
    """two-head MLP: Linear-BN pairs normalised in reverse order"""

    def __init__(self, H=2):
        super().__init__()
        self.fa = nn.Linear(2, H)
        self.fb = nn.Linear(2, H)
        self.bna = nn.BatchNorm1d(H)
        self.bnb = nn.BatchNorm1d(H)
        self.out = nn.Linear(H, 2)

    def forward(self, x):
        a = self.fa(x)
        b = self.fb(x)
        b = self.bnb(b)
        a = self.bna(a)
        return self.out(torch.relu(a) + torch.relu(b))


class M2(nn.Module):
    """forward with two inputs"""

    def __init__(self, C=2):
        super().__init__()
        self.ca = nn.Conv1d(1, C, 1)
        self.cb = nn.Conv1d(1, C, 1)
        self.bn = nn.BatchNorm1d(C)
        self.out = nn.Conv1d(C, 2, 1)

    def forward(self, x, z):
        return self.out(torch.relu(self.bn(self.ca(x)) + self.cb(z)))


pitlib.FAMILIES.update({'B1': B1, 'B2': B2, 'M2': M2})
pitlib._SHAPES.update({'B1': lambda s: (1, 2), 'B2': lambda s: (2,), 'M2': lambda s: (1, 2)})


def instances(tier, seed):
    progs = [{'fam': 'T2', 'K0': 2, 'K1': 2, 'T': 3}, {'fam': 'T2', 'K0': 2, 'K1': 1, 'T': 2, 'lin_bn': False}, {'fam': 'D2', 'C': 2, 'cin': 2}, {'fam': 'A1', 'K': 2, 'C': 2},
             {'fam': 'L1'}, {'fam': 'B1'}, {'fam': 'B2'}, {'fam': 'T1', 'K': 2, 'C': 2, 'bias': False}, {'fam': 'M2'},
             # strided conv + BN; BN with eps of the order of the variances (outputs compared up to TOL on the box |x| <= 2)
             {'fam': 'T2', 'K0': 2, 'K1': 1, 'T': 3, 's0': 2}, {'fam': 'T2', 'K0': 2, 'K1': 1, 'T': 2, 'bn_stats': 'generic'},
             {'fam': 'D2', 'C': 2, 'cin': 1, 'HW': 2, 'pool': 'none', 'bn_stats': 'generic'},
             # a freezable sub-module with a Dropout that the converted model shares with the user's model
             {'fam': 'Z1', 'nd': 1}, {'fam': 'Z1', 'nd': 2}]
    if tier == 'thorough':
        progs += [{'fam': 'K1', 'origins': ['s', 'f']}, {'fam': 'K2', 'T': 2}, {'fam': 'W1', 'nd': 2}, {'fam': 'F1', 'variant': 'module'}, {'fam': 'X1', 'kind': 'conv', 'exclude': 'name'},
                  {'fam': 'D2', 'C': 3, 'cin': 2, 'pool': 'avg'}, {'fam': 'R2'}]
    out = []
    for s in progs:
        for fold in (False, True):
            for mode in (('eval', 'train', 'mixed') if (s in progs[:3] or s.get('fam') == 'Z1') else ('eval', 'train')):
                out.append({'id': f'PIT:{pitlib.prog_id(s)}:fold={int(fold)}:{mode}', 'what': 'pit', 'spec': s, 'fold': fold, 'mode': mode, 'wseed': seed})
    sns = [{'n': 2, 'kind': 'conv'}, {'n': 3, 'kind': 'seq'}, {'n': 3, 'kind': 'mix'}, {'n': 2, 'kind': 'conv', 'bn': True}, {'n': 2, 'kind': 'userdrop'}]
    if tier == 'thorough':
        sns += [{'n': 2, 'kind': 'mix', 'blocks': 2, 'twice': True}, {'n': 4, 'kind': 'user'}]
    for s in sns:
        for mode in ('eval', 'train', 'mixed'):
            out.append({'id': f'SuperNet:{snlib.prog_id(s)}:{mode}', 'what': 'sn', 'spec': s, 'mode': mode, 'wseed': seed})
    for s in ({'fam': 'D2', 'C': 2, 'cin': 2}, {'fam': 'L1'}, {'fam': 'Z1', 'nd': 2}):
        for mode in ('eval', 'train', 'mixed'):
            out.append({'id': f'MPS:{pitlib.prog_id(s)}:{mode}', 'what': 'mps', 'spec': s, 'mode': mode, 'wseed': seed})
    return out


def _inputs(model, shape, spec, sym=True, vals=None):
    n_in = 2 if spec.get('fam') == 'M2' else 1
    outs = []
    k = 0
    for i in range(n_in):
        if sym:
            outs.append(SymTensor.fresh(f'x{i}', (1,) + tuple(shape)))
        else:
            n = int(np.prod(shape))
            outs.append(torch.tensor([float(Fraction(v)) for v in vals[k:k + n]], dtype=torch.float32).reshape((1,) + tuple(shape)))
            k += n
    return outs


def _arch(model):
    """hyper-parameters of conv/linear/BN layers by name"""
    d = {}
    for n, m in model.named_modules():
        if isinstance(m, (nn.Conv1d, nn.Conv2d)):
            d[n] = (type(m).__name__, m.in_channels, m.out_channels, tuple(m.kernel_size), tuple(m.stride), tuple(m.dilation), m.groups, m.bias is not None)
        elif isinstance(m, nn.Linear):
            d[n] = ('Linear', m.in_features, m.out_features, m.bias is not None)
    return d


TOL = Fraction(1, 1000)


def _differs_by(_y, _r, tol):
    """-> comparison function: some element differs by more than tol (used where BN folding is computed in float32 on
    non-dyadic statistics, so that exact equality would demand more than the statement does)"""
    def f(y, y_ref):
        ds = []
        for u, v in zip(st.to_arr(y).reshape(-1), st.to_arr(y_ref).reshape(-1)):
            d = st.e_sub(u, v)
            if st.is_sym(d):
                ds.append(z3.Or(d > tol, d < -tol))
            elif abs(d) > tol:
                return True
        return z3.Or(*ds) if ds else False
    return f


def _sd_equal(a, b):
    if a.keys() != b.keys():
        return f'keys differ: {sorted(set(a) ^ set(b))}'
    for k in a:
        if not torch.equal(a[k], b[k]):
            return f'tensor {k} changed'
    return None


_MODE_SENSITIVE = (nn.modules.batchnorm._BatchNorm, nn.modules.dropout._DropoutNd, nn.modules.instancenorm._InstanceNorm)


def _set_mode(model, mode):
    """'eval' / 'train' / 'mixed' (training parent, first child frozen in eval mode)"""
    model.train(mode != 'eval')
    if mode == 'mixed':
        kids = [k for k in model.children() if any(isinstance(m, _MODE_SENSITIVE) for m in k.modules())] or list(model.children())
        if kids:
            kids[0].eval()


def concrete_case(rec):
    """plain torch observation of one configuration; returns dict of problems"""
    what, spec, mode = rec['what'], rec['spec'], rec['mode']
    probs = {}
    if what == 'sn':
        from plinio.methods import SuperNet
        model, shape = snlib.build(spec, rec.get('wseed', 0))
    else:
        model, shape = pitlib.build_program(spec, rec.get('wseed', 0))
    _set_mode(model, mode)
    flags0 = {n: m.training for n, m in model.named_modules() if isinstance(m, _MODE_SENSITIVE)}
    xs = _inputs(model, shape, spec, False, rec['x']) if rec.get('x') else [torch.zeros((1,) + tuple(shape))] * (2 if spec.get('fam') == 'M2' else 1)
    sd0 = copy.deepcopy(model.state_dict())
    with torch.no_grad():
        y_ref = copy.deepcopy(model).eval()(*xs)
    if what == 'pit':
        from plinio.methods import PIT
        kw = {'exclude_names': model.fixed_names()} if spec['fam'] == 'K1' else {}
        if spec.get('exclude') == 'name':
            kw['exclude_names'] = ('b',)
        ex_in = tuple(torch.rand((1,) + tuple(shape)) for _ in xs) if len(xs) > 1 else None
        w = PIT(model, input_shape=shape if ex_in is None else None, input_example=ex_in, fold_bn=rec['fold'], **kw)
    elif what == 'sn':
        w = SuperNet(model, input_shape=shape)
    else:
        from plinio.methods import MPS
        from plinio.methods.mps import get_default_qinfo
        w = MPS(model, input_shape=shape, qinfo=get_default_qinfo((8,), (8,)))
    if what != 'sn' and w.training != (mode != 'eval'):
        probs['wrapper_mode'] = f'wrapper.training={w.training}, model was handed over in {mode} mode'
    if what != 'sn' and w.seed.training != (mode != 'eval'):
        probs['seed_mode'] = f'seed.training={w.seed.training}, model was handed over in {mode} mode'
    flags1 = {n: m.training for n, m in model.named_modules() if isinstance(m, _MODE_SENSITIVE)}
    if model.training != (mode != 'eval'):
        probs['user_model_mode'] = f'user model.training={model.training} after conversion, was {mode != "eval"}'
    elif flags1 != flags0:
        # every module of the user's model whose behaviour depends on the flag (BatchNorm, Dropout), not only the root: a sub-module deliberately
        # left in eval mode inside a training parent (frozen stem) computes something else once its flag is flipped
        diff = {n: (flags0[n], flags1.get(n)) for n in flags0 if flags1.get(n) != flags0[n]}
        probs['user_model_mode'] = f'training flags of the user model changed by the conversion (module: (before, after)): {diff}'
    if what != 'mps':
        e = _sd_equal(sd0, model.state_dict())
        if e:
            probs['user_model_state'] = e
        with torch.no_grad():
            y_w = w.eval()(*xs)
            y_after = copy.deepcopy(model).eval()(*xs)
            exp = w.export().eval()
            if what == 'pit':
                pitlib.copy_bn_stats(w, exp)
            y_e = exp(*xs)
        for name, y in (('wrapped_output', y_w), ('user_model_output_after', y_after), ('exported_output', y_e)):
            if what == 'sn' and name == 'exported_output':
                continue
            if tuple(y.shape) != tuple(y_ref.shape) or float((y - y_ref).abs().max()) > 1e-4 * max(1.0, float(y_ref.abs().max())):
                probs[name] = f'{name} differs from the original model output: {y.reshape(-1).tolist()} vs {y_ref.reshape(-1).tolist()}'
        if what == 'pit':
            a0, a1 = _arch(model), _arch(exp)
            if not rec['fold']:
                bad = {k: (a0[k], a1.get(k)) for k in a0 if a1.get(k) != a0[k]}
            else:
                bad = {k: (a0[k], a1.get(k)) for k in a0 if a1.get(k) is None or a1[k][:-1] != a0[k][:-1]}
            if bad:
                probs['exported_arch'] = f'exported hyper-parameters differ: {bad}'
    return probs


def replay(rec):
    probs = concrete_case(rec)
    return rec['observable'] in probs, str(probs)[:700]


def run_instance(p):
    res = InstanceResult(p['id'])
    what, spec, mode, wseed, selftest = p['what'], p['spec'], p['mode'], p.get('wseed', 0), p.get('selftest', False)
    base = {'what': what, 'spec': spec, 'mode': mode, 'fold': p.get('fold', False), 'wseed': wseed}
    ident = (pitlib.prog_id(spec) if what != 'sn' else snlib.prog_id(spec))

    def report(obs, text, xvals=None):
        rec = dict(base, observable=obs, x=xvals, key=f'{what}|{ident}|fold={int(p.get("fold", False))}|{mode}|{obs}' + ('|selftest' if selftest else ''), what_text=text)
        rec['what'] = f'{what.upper()}({ident}, fold_bn={p.get("fold", False)}, handed over in {mode} mode): {text}'
        r2 = dict(rec, what=what)
        if selftest:
            res.violations.append(jsonable(rec))
            return
        okr, msg = replay(jsonable(r2))
        if okr:
            rec['replay_msg'] = msg
            rec['what_kind'] = what
            res.violations.append(jsonable(dict(rec, **{'replay_rec': jsonable(r2)})))
        else:
            res.errors.append(f'counterexample did not reproduce: {rec["key"]}: {msg[:400]}')

    # concrete side conditions (no quantifier)
    probs = concrete_case(dict(base, x=None))
    for obs in ('wrapper_mode', 'seed_mode', 'user_model_mode', 'user_model_state', 'exported_arch'):
        applicable = not (what == 'sn' and obs in ('wrapper_mode', 'seed_mode')) and not (what == 'mps' and obs in ('user_model_state', 'exported_arch'))
        if not applicable:
            continue
        res.oblige(obs not in probs)
        if obs in probs:
            report(obs, probs[obs])
    if what == 'mps':
        res.paths += 1
        res.sample({'config': p['id'], 'problems': probs})
        return res

    # symbolic equivalences
    if what == 'sn':
        from plinio.methods import SuperNet
        model, shape = snlib.build(spec, wseed)
    else:
        model, shape = pitlib.build_program(spec, wseed)
    _set_mode(model, mode)
    ref = copy.deepcopy(model).eval()
    if what == 'pit':
        from plinio.methods import PIT
        kw = {'exclude_names': model.fixed_names()} if spec['fam'] == 'K1' else {}
        if spec.get('exclude') == 'name':
            kw['exclude_names'] = ('b',)
        n_in = 2 if spec.get('fam') == 'M2' else 1
        ex_in = tuple(torch.rand((1,) + tuple(shape)) for _ in range(n_in)) if n_in > 1 else None
        w = PIT(model, input_shape=shape if ex_in is None else None, input_example=ex_in, fold_bn=p['fold'], **kw)
    else:
        w = SuperNet(model, input_shape=shape)
    w.eval()
    after = copy.deepcopy(model).eval()

    def fn(ex):
        with SymMode():
            xs = _inputs(model, shape, spec, True)
            if approx:
                for x in xs:
                    for v in x.elems():
                        ex.assume(v >= -2, v <= 2)
            y_ref = ref(*xs)
            y_w = w(*xs)
            y_after = after(*xs)
            exp = w.export().eval()
            if what == 'pit':
                pitlib.copy_bn_stats(w, exp)
            y_e = exp(*xs)
        return xs, y_ref, y_w, y_after, y_e
    approx = spec.get('bn_stats') == 'generic'
    ex = Explorer(timeout_ms=Q)
    for pc, (xs, y_ref, y_w, y_after, y_e) in ex.explore(fn):
        for obs, y in (('wrapped_output', y_w), ('user_model_output_after', y_after), ('exported_output', y_e)):
            if what == 'sn' and obs == 'exported_output':
                continue      # a SuperNet export keeps one branch per block by design (C03); only PIT export is architecture-preserving
            if tuple(y.shape) != tuple(y_ref.shape):
                bad = True
            else:
                bad = (_differs_by(y, y_ref, TOL) if approx else st.any_differs)(y, y_ref if not (selftest and obs == 'wrapped_output') else y_ref + 1)
            if bad is False:
                res.oblige(True)
                continue
            r, m = ex.check(bad) if bad is not True else ex.check()
            if r == 'unknown':
                res.inconclusive.append(f'{obs}: unknown')
                continue
            res.oblige(r == 'unsat')
            if r == 'sat':
                allx = [v for x in xs for v in x.elems()]
                cons = [z3.And(v * 8 == z3.ToReal(z3.Int(f'g!{i}')), v >= -4, v <= 4) for i, v in enumerate(allx)]
                r2, m2 = ex.check(*( [bad] if bad is not True else []), *cons, timeout_ms=20000)
                m2 = m2 if r2 == 'sat' else m
                report(obs, f'{obs} differs from the original model for some input', [st.model_value(m2, v) for v in allx])
        r, m = ex.must()
        allx = [v for x in xs for v in x.elems()]
        xv = [Fraction(i % 5 - 2, 2) for i in range(len(allx))]
        cp = concrete_case(dict(base, x=jsonable(xv)))
        res.sample({'config': p['id'], 'x': xv, 'problems_plain_torch': cp})
        sym_ok = not any(v['key'].endswith(o) for v in res.violations for o in ('wrapped_output', 'user_model_output_after', 'exported_output'))
        if sym_ok == (not any(k in cp for k in ('wrapped_output', 'user_model_output_after', 'exported_output'))):
            res.validated += 1
        else:
            res.notes.append(f'plain torch at one sample point: {cp}')
    res.witnesses += 1
    res.witnesses_ok += 1 if ex.n_paths >= 1 else 0
    res.absorb(ex)
    return res
