"""C20 - precision refinement only promotes channels and never raises the cost.

(a) _reassign_precisions(best, scores): the score matrix is a matrix of z3 reals (pairwise distinct), the target counts are
    every composition of the number of channels; the real function runs on it (the engine forks on argmax / argsort, so
    every ORDER TYPE of the scores is one path) and on every path the result must be a 0/1 matrix with exactly one 1 per
    column whose row sums equal the target counts.
(b) optimize_prec_assignment on a per-channel MPS model with the NE16 cost: the alpha matrices are z3 reals; on every
    precision assignment (path) no channel loses bits, every layer has the channel counts the refinement chose (recomputed by
    the harness with the same greedy search) and get_cost('ne16') does not increase.
"""
import contextlib
import copy
import io
import itertools
import time
from fractions import Fraction

import numpy as np
import torch
import torch.nn as nn
import z3

import symtorch as st
from symtorch import Explorer, SymMode, SymTensor, swapped_params
from vlib import mpslib
from vlib.harness import InstanceResult, jsonable

PROPERTY = 'C20'
TECHNIQUE = 'symbolic execution of the real _reassign_precisions / optimize_prec_assignment on z3-real score / coefficient matrices: one path per order type (argmax/argsort forks), assignment and count obligations per path'
FUNCTIONS_ENCODED = ['_reassign_precisions', 'optimize_prec_assignment', '_compute_cost', 'MPSConv2d/MPSLinear.get_cost (NE16)', 'ne16_latency functions']
BOUNDS = {'quick': '(P, C) in {(2,2), (2,3), (3,2)} x all compositions of C as targets; whole function on one model (Conv2d 3x3 with 2 channels + Linear, precisions (2,8)/(2,4,8)); whole function additionally on a canonical score model per assignment; every violating assignment is compared with an executable reference of the recorded greedy',
          'thorough': '+ (2,4), (3,3); whole function with 3 channels'}
OUTSIDE = ['matrices larger than the bound (the number of order types grows super-exponentially)', 'ties between scores', 'cost models other than NE16']
ASSUMPTIONS = ['scores pairwise distinct', 'target counts sum to the number of channels']
INSTANCE_TIMEOUT_S = {'quick': 1800, 'thorough': 3600}
Q = 30000


def compositions(n, k):
    if k == 1:
        yield (n,)
        return
    for i in range(n + 1):
        for rest in compositions(n - i, k - 1):
            yield (i,) + rest


def instances(tier, seed):
    out = []
    sizes = [(2, 2), (2, 3), (3, 2)] + ([(2, 4), (3, 3)] if tier == 'thorough' else [])
    for (P, C) in sizes:
        for best in compositions(C, P):
            out.append({'id': f'reassign:{P}x{C}:best={list(best)}', 'what': 'reassign', 'P': P, 'C': C, 'best': list(best)})
    for w in ([2, 8], [2, 4, 8]):
        out.append({'id': f'optimize:w={w}:C=2', 'what': 'optimize', 'w': w, 'C': 2, 'wseed': seed})
    # 0 bit among the precisions: pruned channels stay pruned, the others are refined as usual
    out.append({'id': 'optimize:w=[0, 2, 8]:C=3', 'what': 'optimize', 'w': [0, 2, 8], 'C': 3, 'wseed': seed})
    if tier == 'thorough':
        out.append({'id': 'optimize:w=[2, 8]:C=3', 'what': 'optimize', 'w': [2, 8], 'C': 3, 'wseed': seed})
    # layers wider than one NE16 tile (32 channels): the channel COUNTS per precision are z3 integers concretised by forking (every composition
    # on the grid is one path); the coefficient matrices are near one-hot realisations of the counts
    step = 8 if tier == 'quick' else 4
    for lo in range(0, 65, 16):
        out.append({'id': f'optimize_counts:C=64:n2 in [{lo},{min(lo + 15, 64)}]:step={step}', 'what': 'counts', 'C': 64, 'lo': lo, 'hi': min(lo + 15, 64), 'step': step, 'wseed': seed})
    # the same with the pruning precision in the search space and some channels already pruned (0 bit): they stay pruned, the others are refined
    for n0 in ((8,) if tier == 'quick' else (4, 8, 24)):
        out.append({'id': f'optimize_counts:C=64:w=0-2-4-8:pruned={n0}:step={step}', 'what': 'counts', 'C': 64, 'lo': 0, 'hi': 64 - n0, 'step': step, 'wseed': seed, 'w': [0, 2, 4, 8], 'n0': n0})
    return out


def check_matrix(M, best):
    """-> None or (observable, text)"""
    P, C = M.shape
    if not all(v in (0.0, 1.0) for v in M.reshape(-1).tolist()):
        return 'not_binary', f'entries {M.tolist()}'
    cols = M.sum(dim=0).tolist()
    if any(c != 1 for c in cols):
        return 'column_sum!=1', f'a channel has {cols} precisions: {M.tolist()}'
    rows = [int(v) for v in M.sum(dim=1).tolist()]
    if rows != list(best):
        return 'row_sums!=best', f'row sums {rows} but target counts {list(best)}: {M.tolist()}'
    return None


def recorded_greedy(best, S):
    """The behaviour that the recorded findings of this property describe, as an executable reference: each precision in turn takes its
    top-`target` channels by row score among ALL channels (ignoring the current assignment), marks its own surplus as unassigned, and a second
    pass refills deficits from the unassigned channels.  A violation produced by an assignment that equals this reference is the recorded
    finding; a violation produced by any OTHER assignment is a different defect and is reported (key prefix `unrecorded|`).
    S: P x C nested list of pairwise distinct numbers -> P x C 0/1 nested list"""
    P, C = len(S), len(S[0])
    cur = [max(range(P), key=lambda p_: S[p_][c]) for c in range(C)]
    order = [sorted(range(C), key=lambda c: -S[p_][c]) for p_ in range(P)]
    new = list(cur)
    for p_ in range(P):
        t = int(best[p_])
        mine = [c for c in range(C) if cur[c] == p_]
        if t == 0:
            for c in mine:
                new[c] = -1
            continue
        for c in order[p_][:t]:
            new[c] = p_
        for c in mine[t:]:
            new[c] = -1
    for p_ in range(P):
        t = int(best[p_])
        have = sum(1 for v in new if v == p_)
        if have < t:
            free = [c for c in order[p_] if new[c] == -1][:t - have]
            for c in free:
                new[c] = p_
    return [[1.0 if new[c] == p_ else 0.0 for c in range(C)] for p_ in range(P)]


class _spy_reassign:
    """records every call of the real _reassign_precisions made by optimize_prec_assignment and whether its result equals the recorded greedy"""

    def __enter__(self):
        import plinio.methods.mps.utils as U
        self.U, self.orig, self.as_recorded = U, U._reassign_precisions, True

        def wrapper(best, scores):
            out = self.orig(best, scores)
            try:
                ref = recorded_greedy([int(v) for v in best.tolist()], [[float(v) for v in row] for row in scores.tolist()])
                if [[float(v) for v in row] for row in out.tolist()] != ref:
                    self.as_recorded = False
            except Exception:
                self.as_recorded = False
            return out
        U._reassign_precisions = wrapper
        return self

    def __exit__(self, *a):
        self.U._reassign_precisions = self.orig
        return False


def check_promotion(M, best, cur):
    """cur: current precision index per channel (arg-max of the scores).  When the targets are reachable from the current counts by
    moving channels to HIGHER precisions only (which is all optimize_prec_assignment ever asks for), no channel may end up lower.
    -> None or (observable, text, current counts)"""
    P, C = M.shape
    cc = [sum(1 for c in cur if c == p_) for p_ in range(P)]
    if any(sum(best[p_:]) < sum(cc[p_:]) for p_ in range(P)):
        return None          # the targets demand a demotion: nothing to say
    new = [int(torch.argmax(M[:, c])) for c in range(C)]
    low = [c for c in range(C) if new[c] < cur[c]]
    if low:
        return 'channel_demoted', f'counts {cc} -> targets {list(best)}: channel {low[0]} goes from precision #{cur[low[0]]} to #{new[low[0]]}: {M.tolist()}', cc
    return None


def concrete_reassign(P, C, best, scores):
    from plinio.methods.mps.utils import _reassign_precisions
    S = torch.tensor([float(Fraction(v)) for v in scores], dtype=torch.float32).reshape(P, C)
    M = _reassign_precisions(torch.tensor([float(b) for b in best]), S)
    prob = check_matrix(M, best)
    if prob is None:
        pr = check_promotion(M, best, [int(v) for v in torch.argmax(S, dim=0)])
        prob = pr[:2] if pr else None
    return M, prob


class _Net(nn.Module):
    def __init__(self, C=2):
        super().__init__()
        self.c0 = nn.Conv2d(1, C, 3, padding=1)
        self.fc = nn.Linear(C * 2 * 2, 2)

    def forward(self, x):
        return self.fc(torch.relu(self.c0(x)).flatten(1))


def _mk_model(w, C, seed=0):
    from plinio.methods import MPS
    from plinio.methods.mps import get_default_qinfo, MPSType
    from plinio.cost import ne16_latency
    torch.manual_seed(seed)
    m = MPS(_Net(C), input_shape=(1, 2, 2), qinfo=get_default_qinfo(tuple(w), (8,)), w_search_type=MPSType.PER_CHANNEL, cost={'ne16': ne16_latency})
    return m.eval()


def _bits(m):
    return {k: list(v['w_precision']) if isinstance(v.get('w_precision'), list) else v.get('w_precision') for k, v in m.summary().items() if 'w_precision' in v}


def observe_optimize(m):
    """run the real optimize_prec_assignment; returns (problem or None, info)"""
    from plinio.methods.mps.utils import optimize_prec_assignment
    with torch.no_grad():
        m.update_softmax_options(hard=True)
        m(m._input_example)
        before_bits = _bits(m)
        before_cost = float(m.get_cost('ne16'))
    with contextlib.redirect_stdout(io.StringIO()), _spy_reassign() as spy:
        optimize_prec_assignment(m, 'ne16')
    with torch.no_grad():
        after_bits = _bits(m)
        after_cost = float(m.get_cost('ne16'))
    info = {'before': before_bits, 'after': after_bits, 'cost_before': before_cost, 'cost_after': after_cost, 'reassign_as_recorded': spy.as_recorded}
    for l in before_bits:
        b0, b1 = before_bits[l], after_bits[l]
        if isinstance(b0, list):
            if len(b1) != len(b0):
                return ('channel_lost', f'{l}: {b0} -> {b1}'), info
            if any(y < x for x, y in zip(b0, b1)):
                return ('channel_demoted', f'{l}: {b0} -> {b1}'), info
    if after_cost > before_cost * (1 + 1e-6) + 1e-6:
        return ('cost_increased', f'{before_cost} -> {after_cost}'), info
    return None, info


def replay(rec):
    if rec['what_kind'] == 'reassign':
        M, prob = concrete_reassign(rec['P'], rec['C'], rec['best'], rec['scores'])
        return prob is not None and prob[0] == rec['observable'], f'{prob} scores={rec["scores"]} best={rec["best"]}'
    m = _mk_model(rec['w'], rec['C'], rec.get('wseed', 0))
    mpslib.set_alphas(m, rec['alphas'])
    prob, info = observe_optimize(m)
    return prob is not None and prob[0] == rec['observable'], f'{prob} {info}'[:700]


def run_instance(p):
    res = InstanceResult(p['id'])
    selftest = p.get('selftest', False)
    if p['what'] == 'reassign':
        _run_reassign(res, p, selftest)
    elif p['what'] == 'counts':
        _run_counts(res, p, selftest)
    else:
        _run_optimize(res, p, selftest)
    return res


def _alphas_for_counts(m, counts, w):
    """near one-hot coefficient matrix of the first per-channel weight quantiser with the given channel counts per precision"""
    vals = {}
    for n, q in mpslib.quantizers(m):
        if 'c0.w_mps_quantizer' in n:
            P, C = q.alpha.shape
            # pairwise distinct scores (the stated assumption): the selected precision of channel c scores 1 - c/10^4, the others distinct
            # values below 0.01
            A = [[Fraction(1 + ((c * 7 + pi * 3) % 89), 10000) for c in range(C)] for pi in range(P)]
            c = 0
            for pi, k in enumerate(counts):
                for _ in range(k):
                    A[pi][c] = Fraction(10000 - c, 10000)
                    c += 1
            vals[n] = [str(v) for row in A for v in row]
    return vals


def _run_counts(res, p, selftest):
    C, lo, hi, step, wseed = p['C'], p['lo'], p['hi'], p['step'], p.get('wseed', 0)
    w = p.get('w', [2, 4, 8])
    n0 = p.get('n0')
    Cs = C - (n0 or 0)

    def fn(ex):
        n2, n4 = z3.Int('n2'), z3.Int('n4')
        ex.assume(n2 >= lo, n2 <= hi, n2 % step == 0, n4 >= 0, n4 % step == 0, n2 + n4 <= Cs)
        a = int(st.concretize_scalar(n2))
        b = int(st.concretize_scalar(n4))
        return ([n0] if n0 is not None else []) + [a, b, Cs - a - b]
    ex = Explorer(timeout_ms=Q)
    for pc, counts in ex.explore(fn):
        m = _mk_model(w, C, wseed)
        alphas = _alphas_for_counts(m, counts, w)
        mpslib.set_alphas(m, alphas)
        prob, info = observe_optimize(m)
        if selftest and counts[0] == lo:
            prob = ('cost_increased', 'seeded')
        res.oblige(prob is None)
        if ex.n_paths <= 2:
            res.sample({'C': C, f'counts({",".join(str(b) for b in w)} bit)': counts, 'result': {k: (v if not isinstance(v, dict) else {a: (b if not isinstance(b, list) else [b.count(x) for x in w]) for a, b in v.items()}) for k, v in info.items()}})
        if prob is None:
            res.validated += 1
            continue
        key = ('' if info.get('reassign_as_recorded', True) else 'unrecorded|') + f'fn:optimize_prec_assignment|obs:{prob[0]}|C={C}' + (f'|w={"-".join(str(b) for b in w)}' if n0 is not None else '') + f'|counts={"-".join(str(c_) for c_ in counts)}' + ('|selftest' if selftest else '')
        if any(v['key'] == key for v in res.violations):
            continue
        rec = {'what_kind': 'optimize', 'w': w, 'C': C, 'wseed': wseed, 'alphas': alphas, 'observable': prob[0], 'key': key, 'what': f'optimize_prec_assignment with channel counts {counts}: {prob[1]}'[:400]}
        if selftest:
            res.violations.append(jsonable(rec))
            continue
        okr, msg = replay(jsonable(rec))
        if okr:
            rec['replay_msg'] = msg[:400]
            res.violations.append(jsonable(rec))
        else:
            res.errors.append(f'counterexample did not reproduce: {key}: {msg[:300]}')
    res.witnesses += 1
    res.witnesses_ok += 1 if ex.n_paths >= 1 else 0
    res.absorb(ex)


def _run_reassign(res, p, selftest):
    from plinio.methods.mps.utils import _reassign_precisions
    P, C, best = p['P'], p['C'], p['best']

    def fn(ex):
        with SymMode():
            S = SymTensor.fresh('s', (P, C))
            el = S.elems()
            for i in range(len(el)):
                ex.assume(el[i] >= -4, el[i] <= 4)
                for j in range(i + 1, len(el)):
                    ex.assume(el[i] != el[j])
            cur = [int(v) for v in torch.argmax(S, dim=0)]       # forks on the current assignment (the function's own arg-max then follows the path)
            M = _reassign_precisions(torch.tensor([float(b) for b in best]), S)
        Mr = st.core.demote(M) if isinstance(M, SymTensor) and not M.has_sym() else M
        return S, (Mr, cur)
    ex = Explorer(timeout_ms=Q)
    n = 0
    for pc, (S, (M, cur)) in ex.explore(fn):
        n += 1
        if isinstance(M, SymTensor):
            res.errors.append('result matrix still symbolic')
            continue
        prob = check_matrix(M, best)
        ksuffix = ''
        if prob is None:
            pr = check_promotion(M, best, cur)
            if pr:
                prob, ksuffix = pr[:2], f'|cur={"-".join(str(v) for v in pr[2])}->best={"-".join(str(v) for v in best)}'
        if selftest and n == 1:
            prob = ('row_sums!=best', 'seeded')
        res.oblige(prob is None)
        el = S.elems()
        cons = [el[i] * 4 == z3.ToReal(z3.Int(f'g!{i}')) for i in range(len(el))]
        r, m = ex.check(*cons, timeout_ms=10000)
        if r != 'sat':
            r, m = ex.must()
        scores = [st.model_value(m, v) for v in el]
        if prob is None:
            if n <= 20 or n % 10 == 0:
                Mc, pc_ = concrete_reassign(P, C, best, jsonable(scores))
                if pc_ is None and torch.equal(Mc, M):
                    res.validated += 1
                else:
                    res.errors.append(f'engine ok but plain torch: {pc_} {Mc.tolist()} vs {M.tolist()} scores={scores}')
            if n <= 2:
                res.sample({'P': P, 'C': C, 'best': best, 'scores': scores, 'assignment': M.tolist()})
            continue
        sc = [[float(Fraction(str(v))) if not isinstance(v, (int, float, Fraction)) else float(v) for v in scores[i * C:(i + 1) * C]] for i in range(P)]
        as_rec = [[float(v) for v in row] for row in M.tolist()] == recorded_greedy(best, sc)
        key = ('' if as_rec else 'unrecorded|') + f'fn:_reassign_precisions|obs:{prob[0]}|P={P},C={C}' + ksuffix + ('|selftest' if selftest else '')
        if any(v['key'] == key for v in res.violations):
            continue
        rec = {'what_kind': 'reassign', 'P': P, 'C': C, 'best': best, 'scores': scores, 'observable': prob[0], 'key': key,
               'what': f'_reassign_precisions(best={best}, scores={[[str(x) for x in scores[i * C:(i + 1) * C]] for i in range(P)]}): {prob[1]}'}
        if selftest:
            res.violations.append(jsonable(rec))
            continue
        okr, msg = replay(jsonable(rec))
        if okr:
            rec['replay_msg'] = msg
            res.violations.append(jsonable(rec))
        else:
            res.errors.append(f'counterexample did not reproduce: {key}: {msg[:400]}')
    res.witnesses += 1
    res.witnesses_ok += 1 if ex.n_paths >= 1 else 0
    res.absorb(ex)


def _run_optimize(res, p, selftest):
    w, C, wseed = p['w'], p['C'], p.get('wseed', 0)
    m = _mk_model(w, C, wseed)
    qs = [(n, q) for n, q in mpslib.quantizers(m) if 'w_mps_quantizer' in n]

    def fn(ex):
        pairs, sy = mpslib.fresh_alphas(m, ex, only=lambda nme: 'w_mps_quantizer' in nme)
        with SymMode(), swapped_params(pairs), mpslib.saved_thetas(m):
            # decide the precision assignment (forks on the per-channel arg-max) and make the coefficients concrete one-hot scores on this path
            m.update_softmax_options(hard=True)
            m(torch.zeros(1, 1, 2, 2))
            sel = {n: st.core.demote(q.theta_alpha) for n, q in qs}
        # the refinement only depends on the order of the scores inside each column and precision. It runs (a) on a CANONICAL model of the path
        # (selected precision of channel c: 1 - c/64; the others pairwise distinct values below 1/4), whose result does not depend on which model the
        # solver happens to return - recorded findings are listed per assignment for it - and (b) on the solver's own model of the path
        canon = {}
        for n_, a_ in sy.items():
            S_ = sel[n_].reshape(sel[n_].shape[0], -1)
            P_, C_ = S_.shape
            A_ = [[(Fraction(64 - c, 64) if float(S_[pi, c]) == 1.0 else Fraction(1 + ((c * 7 + pi * 3) % 13), 64)) for c in range(C_)] for pi in range(P_)]
            canon[n_] = [v for row in A_ for v in row]
        mm = mpslib.grid_model(ex, sy, [], den=8, bound=2)
        runs = []
        for tag, alphas in (('canonical', canon), ('solver', mpslib.values_of(mm, sy))):
            m2 = _mk_model(w, C, wseed)
            mpslib.set_alphas(m2, jsonable(alphas))
            prob, info = observe_optimize(m2)
            runs.append((tag, alphas, prob, info))
        return sy, runs
    ex = Explorer(timeout_ms=Q)
    n = 0
    for pc, (sy, runs) in ex.explore(fn):
        n += 1
        for tag, alphas, prob, info in runs:
            if selftest and n == 1:
                prob = ('cost_increased', 'seeded')
            res.oblige(prob is None)
            if n <= 2 and tag == 'canonical':
                res.sample({'w': w, 'C': C, 'alphas': alphas, 'result': info})
            if prob is None:
                res.validated += 1
                continue
            bef = info.get('before', {}).get('c0') if isinstance(info, dict) else None
            aft = info.get('after', {}).get('c0') if isinstance(info, dict) else None
            key = ('' if (not isinstance(info, dict) or info.get('reassign_as_recorded', True)) else 'unrecorded|') + f'fn:optimize_prec_assignment|obs:{prob[0]}|w={"-".join(str(b) for b in w)},C={C}' + \
                (f'|model={tag}' if tag == 'canonical' else '') + (f'|before={"-".join(str(b) for b in bef)}' if isinstance(bef, list) else '') + \
                (f'|after={"-".join(str(b) for b in aft)}' if (isinstance(aft, list) and tag == 'canonical') else '') + ('|selftest' if selftest else '')
            if any(v['key'] == key for v in res.violations):
                continue
            rec = {'what_kind': 'optimize', 'w': w, 'C': C, 'wseed': wseed, 'alphas': alphas, 'observable': prob[0], 'key': key, 'what': f'optimize_prec_assignment: {prob[1]} ({info})'[:500]}
            if selftest:
                res.violations.append(jsonable(rec))
                continue
            okr, msg = replay(jsonable(rec))
            if okr:
                rec['replay_msg'] = msg
                res.violations.append(jsonable(rec))
            else:
                res.errors.append(f'counterexample did not reproduce: {key}: {msg[:400]}')
    res.notes.append('whole function: the solver enumerates the precision assignments (arg-max paths); the refinement then runs in plain torch on a model of each path (it only depends on the order type of the coefficients within the assignment, which the path fixes only partially: stated bound)')
    res.witnesses += 1
    res.witnesses_ok += 1 if ex.n_paths >= 2 else 0
    res.absorb(ex)
