"""C04 - PIT cost equals the real cost of the network that export would produce.

All mask parameters are z3 reals.  PIT.get_cost (discrete_cost=True) is evaluated symbolically (a term over the binarised
mask bits); export() then forks on the mask bits, and on every feasible path the cost term must equal (unsat of !=) the same
metric computed from scratch on the exported network with plain torch: PIT(exported).get_cost at initialisation, the
actual number of parameters (numel) and a forward-hook MAC count.  At fully open masks continuous == discrete == cost of
the original model.
"""
import copy
import time
from fractions import Fraction

import numpy as np
import torch
import torch.nn as nn
import z3

import symtorch as st
from symtorch import Explorer, SymMode, SymTensor, swapped_params
from vlib import pitlib
from vlib.harness import InstanceResult, jsonable

PROPERTY = 'C04'
TECHNIQUE = 'symbolic execution of the real PIT cost path on z3-real masks; per export path an unsat query "discrete cost term != metric recomputed from scratch on the exported network"'
FUNCTIONS_ENCODED = ['PIT.get_cost/_get_single_cost/_single_cost_fn_map/cost_specification setter', 'PITConv1d/PITConv2d/PITLinear.get_modified_vars/out_features_eff/k_eff',
                     'ModAttr/Flatten/Concat/ConstFeaturesCalculator.features', 'plinio.cost.params/params_no_bias/ops/ops_no_bias/gap8_latency (registered functions)',
                     'shapes_dict', 'named_leaf_modules/uniquify_leaf_modules', 'PIT.export (for the from-scratch oracle)']
BOUNDS = {'quick': 'programs T1(K=3,4), T2, A1, K1(s+f, f+f), K3 (nested concat), H1 (multi-resolution flatten+concat head), D2 (+gap8), L1, R2, R4; specs as one dictionary {params, params_no_bias, ops, ops_no_bias} and params alone; full_cost on/off; cost specification re-assigned after pruning; discrete_cost switched on after construction (plain, after train_net_only, after train_features=False); cost read after the masks are written through .data / in place into a used model',
          'thorough': 'T1 K=1..9, all C01 whole-net programs incl. fold_bn, every metric also as a single specification'}
OUTSIDE = ['float32 rounding of cost sums (exact arithmetic)', 'layers pruned to exactly 1 input and 1 output channel with groups=1: they satisfy conv_dw_constraint, so a from-scratch evaluation picks the depthwise model while the search used the generic one (GAP8: 54 vs 81 on D2 with a 1-channel input); the grammar uses 2 input channels for 2D programs', 'architectures outside the grammar', 'user-defined cost specifications']
ASSUMPTIONS = ['the from-scratch oracle for latency-like metrics is PIT(exported, same spec).get_cost at initialisation (the statement\'s own definition); params and ops additionally use independent numel / forward-hook counts']
INSTANCE_TIMEOUT_S = {'quick': 1500, 'thorough': 3600}
Q = 60000


def _specs(fam):
    from plinio.cost import params, ops, gap8_latency
    from plinio.cost.params_no_bias import params_no_bias
    from plinio.cost.ops_no_bias import ops_no_bias
    d = {'params': params, 'params_no_bias': params_no_bias, 'ops': ops, 'ops_no_bias': ops_no_bias}
    if fam == 'D2':
        d['gap8_latency'] = gap8_latency
    return d


def instances(tier, seed):
    progs = [{'fam': 'T1', 'K': 3, 'C': 2}, {'fam': 'T1', 'K': 4, 'C': 2}, {'fam': 'T2', 'K0': 3, 'K1': 2}, {'fam': 'A1', 'K': 2, 'C': 2},
             {'fam': 'K1', 'origins': ['s', 'f']}, {'fam': 'D2', 'C': 2, 'cin': 2}, {'fam': 'L1'}, {'fam': 'R2'}, {'fam': 'R4'},
             {'fam': 'K1', 'origins': ['f', 'f']}, {'fam': 'K3', 'origins': ['f', 'f']}, {'fam': 'H1'}, {'fam': 'K4'},
             # enough channels for the tile rounding of the hardware models (ceil(channels / 4) changes when channels are pruned)
             {'fam': 'D2', 'C': 5, 'cin': 2, 'pool': 'none', 'bn': False}]
    if tier == 'thorough':
        progs += [{'fam': 'T1', 'K': K, 'C': 2} for K in (1, 2, 5, 6, 7, 8, 9)] + [{'fam': 'T1', 'K': 4, 'd0': 2, 'C': 2}, {'fam': 'T1', 'K': 3, 's': 2, 'C': 2}]
        progs += [{'fam': 'A1', 'K': 2, 'C': 2, 'dw': True}, {'fam': 'K1', 'origins': ['s', 's']}, {'fam': 'K1', 'origins': ['f', 'i']}, {'fam': 'K1', 'origins': ['s', 'f', 's']},
                  {'fam': 'K2'}, {'fam': 'D2', 'C': 3, 'cin': 2, 'pool': 'avg'}, {'fam': 'D2', 'C': 2, 'cin': 2, 'pool': 'none', 'bn': False},
                  {'fam': 'T2', 'K0': 3, 'K1': 2, 'pit': {'fold_bn': True}}, {'fam': 'D2', 'C': 2, 'cin': 2, 'pit': {'fold_bn': True}}]
    out = []
    for spec in progs:
        for full in (False, True):
            for mode in (('dict', 'dict+reassign') if tier == 'quick' else ('dict', 'dict+reassign', 'single:params', 'single:ops', 'single:ops_no_bias', 'single:params_no_bias')):
                if tier == 'quick' and mode == 'dict+reassign' and not full:
                    continue
                out.append({'id': f'{pitlib.prog_id(spec)}:full={int(full)}:{mode}', 'spec': spec, 'full': full, 'mode': mode, 'wseed': seed})
        if tier == 'quick':
            out.append({'id': f'{pitlib.prog_id(spec)}:full=0:single:params', 'spec': spec, 'full': False, 'mode': 'single:params', 'wseed': seed})
        out.append({'id': f'{pitlib.prog_id(spec)}:open_masks', 'spec': spec, 'full': True, 'mode': 'open', 'wseed': seed})
    # discrete cost switched on AFTER construction, in another phase of the search (masks frozen by train_net_only / train_features=False)
    for spec in ([progs[0], progs[5]] if tier == 'quick' else [progs[0], progs[2], progs[5], progs[6]]):
        for late in ('train_net_only', 'train_features=False', 'plain'):
            out.append({'id': f'{pitlib.prog_id(spec)}:full=1:dict:late_discrete:{late}', 'spec': spec, 'full': True, 'mode': 'dict', 'wseed': seed, 'late': late})
    # the cost (and a summary / export) has been read at the previous masks; the new masks are then written through .data / in place
    for spec in ([progs[0], progs[5]] if tier == 'quick' else [progs[0], progs[2], progs[3], progs[5], progs[6]]):
        for hist in ('data', 'nograd'):
            out.append({'id': f'{pitlib.prog_id(spec)}:full=1:dict:after_use+{hist}', 'spec': spec, 'full': True, 'mode': 'dict', 'wseed': seed, 'hist': hist})
    return out


def _cost_arg(fam, mode):
    specs = _specs(fam)
    if mode.startswith('single:'):
        return specs[mode.split(':')[1]], [None]
    return specs, list(specs.keys())


def _excluded(spec, model):
    return tuple(model.fixed_names()) if spec['fam'] in ('K1', 'K3') else ()


def scratch_costs(spec, exported_real, shape, mode, full, model):
    """the metric computed from scratch on the exported network (plain torch)"""
    from plinio.methods import PIT
    cost, names = _cost_arg(spec['fam'], mode)
    e2 = copy.deepcopy(exported_real).eval()
    pe = PIT(e2, input_shape=shape, cost=cost, full_cost=full, exclude_names=_excluded(spec, model)).eval()
    out = {}
    for n in names:
        out[n or 'single'] = float(pe.get_cost(n))
    return out


def independent_counts(spec, exported_real, shape, full, model):
    """numel / hook based counts (independent of plinio.cost). Without full_cost only the searchable (non excluded) layers count."""
    excl = set(_excluded(spec, model))
    names = None if full else {n for n, m in exported_real.named_modules() if isinstance(m, (nn.Conv1d, nn.Conv2d, nn.Linear)) and n not in excl}
    x = torch.zeros((1,) + tuple(shape))
    return {'params': pitlib.count_params(exported_real, names), 'ops': pitlib.count_ops(exported_real, x, True, names),
            'ops_no_bias': pitlib.count_ops(exported_real, x, False, names)}


def concrete_case(rec):
    from plinio.methods import PIT
    spec, mode, full = rec['spec'], rec['mode'], rec['full']
    cost, names = _cost_arg(spec['fam'], 'dict' if mode.startswith('dict') or mode == 'open' else mode)
    pit, model, shape = _make(spec, rec.get('wseed', 0), cost, full, rec.get('late'))
    if rec.get('hist'):
        _use(pit, names, shape)
    pitlib.set_masks(pit, rec['masks'], rec.get('hist') or 'nograd')
    if mode == 'dict+reassign':
        pit.cost_specification = cost
    got = {(n or 'single'): float(pit.get_cost(n)) for n in names}
    e = pit.export().eval()
    want = scratch_costs(spec, e, shape, 'dict' if mode.startswith('dict') else mode, full, model)
    ind = independent_counts(spec, e, shape, full, model)
    return got, want, ind


def _make(spec, wseed, cost, full, late=None):
    if not late:
        return pitlib.make_pit(spec, wseed, cost=cost, full_cost=full, discrete_cost=True)
    pit, model, shape = pitlib.make_pit(spec, wseed, cost=cost, full_cost=full)
    if late == 'train_net_only':
        pit.train_net_only()
    elif late == 'train_features=False':
        pit.train_features = False
    pit.discrete_cost = True
    return pit, model, shape


def _use(pit, names, shape):
    """what a training loop does with the model before the next update of the masks"""
    with torch.no_grad():
        pit(torch.zeros((1,) + tuple(shape)))
    for n in names:
        pit.get_cost(n)
    pit.summary()
    pit.export()


def replay(rec):
    got, want, ind = concrete_case(rec)
    m = rec['metric']
    if rec['observable'] == 'independent':
        return abs(got[m] - ind[m]) > 1e-6 * max(1, abs(ind[m])), f'PIT cost {m}={got[m]}, independent count on the exported network={ind[m]}'
    return abs(got[m] - want[m]) > 1e-6 * max(1, abs(want[m])), f'PIT discrete cost {m}={got[m]}, from scratch on the exported network={want[m]} (all: {got} vs {want})'


def run_instance(p):
    res = InstanceResult(p['id'])
    if p['mode'] == 'open':
        return _run_open(res, p)
    spec, full, mode, wseed, selftest = p['spec'], p['full'], p['mode'], p.get('wseed', 0), p.get('selftest', False)
    cost, names = _cost_arg(spec['fam'], 'dict' if mode.startswith('dict') else mode)
    pit, model, shape = _make(spec, wseed, cost, full, p.get('late'))
    hist = p.get('hist')
    late = p.get('late')

    def fn(ex):
        pairs, sy = pitlib.fresh_masks(pit)
        with SymMode(), (st.written_params(pairs, lambda: _use(pit, names, shape), hist) if hist else swapped_params(pairs)):
            if mode == 'dict+reassign':
                pit.cost_specification = cost       # a spec (re)assigned after the masks moved must select the same cost functions
            costs = {(n or 'single'): st.scalar_of(pit.get_cost(n)) for n in names}
            e = pit.export()
        e = pitlib.realize(e).eval()
        want = scratch_costs(spec, e, shape, 'dict' if mode.startswith('dict') else mode, full, model)
        ind = independent_counts(spec, e, shape, full, model)
        return sy, costs, want, ind
    ex = Explorer(timeout_ms=Q)
    n = 0
    for pc, (sy, costs, want, ind) in ex.explore(fn):
        n += 1
        for metric, term in costs.items():
            w = Fraction(want[metric])
            if selftest and metric.startswith('params'):
                w += 1
            checks = [('scratch', st.e_ne(term, w))]
            if metric in ind and not (metric == 'params' and False):
                checks.append(('independent', st.e_ne(term, Fraction(ind[metric]))))
            for obs, bad in checks:
                if bad is False:
                    res.oblige(True)
                    continue
                r, m = ex.check(bad) if bad is not True else ex.check()
                if r == 'unknown':
                    res.inconclusive.append(f'path {n} {metric}: unknown')
                    continue
                res.oblige(r == 'unsat')
                if r == 'sat':
                    m2, _ = pitlib.grid_model(ex, sy, [bad] if bad is not True else [])
                    m2 = m2 or m
                    rec = {'spec': spec, 'wseed': wseed, 'full': full, 'mode': mode, 'metric': metric, 'masks': pitlib.values_of(m2, sy), 'observable': obs, 'hist': hist, 'late': late,
                           'key': f'{pitlib.prog_id(spec)}|{metric}|{obs}|full={int(full)}|{mode}' + (f'|after_use+{hist}' if hist else '') + (f'|late_discrete:{late}' if late else '') + ('|selftest' if selftest else '')}
                    rec['what'] = f'{pitlib.prog_id(spec)} full_cost={full} {mode}: discrete {metric} cost {st.model_value(m2, term)} != {obs} value {ind.get(metric) if obs == "independent" else want[metric]}'
                    if selftest:
                        res.violations.append(jsonable(rec))
                        continue
                    if any(v['key'] == rec['key'] for v in res.violations):
                        continue
                    okr, msg = replay(jsonable(rec))
                    if okr:
                        rec['replay_msg'] = msg
                        res.violations.append(jsonable(rec))
                    else:
                        res.errors.append(f'counterexample did not reproduce: {rec["key"]}: {msg[:400]}')
        if n <= 4:
            m2, _ = pitlib.grid_model(ex, sy, [])
            if m2 is not None:
                masks = pitlib.values_of(m2, sy)
                got, want_c, ind_c = concrete_case({'spec': spec, 'wseed': wseed, 'full': full, 'mode': mode, 'masks': jsonable(masks), 'hist': hist, 'late': late})
                eng = {k: float(st.model_value(m2, t)) for k, t in costs.items()}
                res.sample({'program': pitlib.prog_id(spec), 'full_cost': full, 'mode': mode, 'masks': masks, 'cost_engine': eng, 'cost_exported_from_scratch': want_c})
                if all(abs(eng[k] - got[k]) <= 1e-6 * max(1, abs(got[k])) for k in eng):
                    res.validated += 1
                else:
                    res.errors.append(f'concolic mismatch: engine {eng} torch {got}')
    res.witnesses += 1
    res.witnesses_ok += 1 if ex.n_paths >= 1 else 0
    res.absorb(ex)
    return res


def _run_open(res, p):
    """fully open masks (symbolic but constrained to be open: every |parameter| > 1/2 ... all ones is the documented initial state):
    continuous == discrete == cost of the original model, for every metric"""
    from plinio.methods import PIT
    spec, wseed, selftest = p['spec'], p.get('wseed', 0), p.get('selftest', False)
    cost, names = _cost_arg(spec['fam'], 'dict')
    out = {}
    for disc in (False, True):
        pit, model, shape = pitlib.make_pit(spec, wseed, cost=cost, full_cost=True, discrete_cost=disc)
        out[disc] = {n: float(pit.get_cost(n)) for n in names}
    orig, shape = pitlib.build_program(spec, wseed)
    orig.eval()
    ind = {'params': pitlib.count_params(orig), 'ops': pitlib.count_ops(orig, torch.zeros((1,) + tuple(shape)), True),
           'ops_no_bias': pitlib.count_ops(orig, torch.zeros((1,) + tuple(shape)), False)}
    # these are concrete observations (no quantifier): the solver is used for the symbolic neighbourhood below
    for n in names:
        ok = abs(out[False][n] - out[True][n]) <= 1e-6 * max(1, abs(out[True][n]))
        res.oblige(ok)
        if not ok:
            res.violations.append({'key': f'{pitlib.prog_id(spec)}|open|continuous!=discrete|{n}', 'spec': spec, 'observable': 'open', 'metric': n, 'mode': 'open', 'full': True, 'masks': {},
                                   'what': f'{pitlib.prog_id(spec)}: at open masks continuous {n}={out[False][n]} but discrete={out[True][n]}'})
        if n in ind and not spec.get('pit', {}).get('fold_bn'):
            # (with fold_bn the reference is the BatchNorm-folded original: a bias-free layer followed by a BatchNorm gains a bias; that case is
            # covered by the from-scratch comparison with the exported network above)
            ok = abs(out[True][n] - ind[n]) <= 1e-6 * max(1, ind[n])
            if selftest:
                ok = False
            res.oblige(ok)
            if not ok:
                res.violations.append({'key': f'{pitlib.prog_id(spec)}|open|discrete!=original|{n}' + ('|selftest' if selftest else ''), 'spec': spec, 'observable': 'open', 'metric': n, 'mode': 'open', 'full': True, 'masks': {},
                                       'what': f'{pitlib.prog_id(spec)}: at open masks discrete {n}={out[True][n]} but the original model has {ind[n]}'})
    # symbolic: for EVERY parameter vector whose binarised masks are all open, the continuous cost term ... is only required to
    # equal the discrete one at theta == 1; here: all parameters symbolic with |p| == 1 (sign arbitrary): continuous == discrete == original
    pit, model, shape = pitlib.make_pit(spec, wseed, cost=cost, full_cost=True, discrete_cost=False)

    n_mask = sum(p_.numel() for _, _, _, p_ in pitlib.mask_params(pit))
    if n_mask > 14:
        # 2^n sign patterns: the sign symmetry theta(m) = theta(-m) is proved per masker in C12; skipped here for large programs
        res.notes.append(f'{pitlib.prog_id(spec)}: sign-pattern clause skipped ({n_mask} mask elements), see C12 masker symmetry')
        res.sample({'program': pitlib.prog_id(spec), 'open_masks': out, 'original_counts': ind})
        res.paths = max(res.paths, 1)
        return res

    def fn(ex):
        pairs, sy = pitlib.fresh_masks(pit)
        for s in sy.values():
            for v in s.elems():
                ex.assume(z3.Or(v == 1, v == -1))
        with SymMode(), swapped_params(pairs):
            return sy, {n: st.scalar_of(pit.get_cost(n)) for n in names}
    ex = Explorer(timeout_ms=Q)
    for pc, (sy, costs) in ex.explore(fn):
        for n, term in costs.items():
            # the continuous cost multiplies by float32 normalisation constants (1/3 is 0.33333334...): equal up to that rounding
            w_ = Fraction(out[True][n])
            bad = st.e_gt(st.e_abs(st.e_sub(term, w_)), w_ * Fraction(1, 10 ** 5))
            if bad is False:
                res.oblige(True)
                continue
            r, m = ex.must(bad)
            res.oblige(r == 'unsat')
            if r == 'sat':
                res.violations.append({'key': f'{pitlib.prog_id(spec)}|open|continuous(sign)|{n}', 'what': f'continuous {n} cost at |mask|=1 with signs {pitlib.values_of(m, sy)} is {st.model_value(m, term)} != {out[True][n]}'})
    res.sample({'program': pitlib.prog_id(spec), 'open_masks': out, 'original_counts': ind})
    res.absorb(ex)
    res.paths = max(res.paths, 1)
    return res
