"""C18 - export, summary and cost are observers: they do not change the model.

One inductive step from an ARBITRARY state: the architectural parameters (PIT masks, MPS / SuperNet coefficients) and the network
input are z3 reals, the training flag is enumerated.  Snapshot S0 = (every parameter/buffer term, .training of every module,
requires_grad, hyper-parameter attributes of every leaf layer, output term for all x, every cost term, summary()), then one
operation op in {export(), export(add_bn=False), summary(), cost, get_cost(n), cost_specification := c', := c' then back},
snapshot S1, and S1 == S0 is discharged by the solver (terms) / compared exactly (flags).  Because every operation is checked
from an arbitrary state, sequences of any length preserve the state; sequences of length 2 are also run literally, and two
consecutive exports are compared structurally and for all x.
"""
import copy
import itertools
import time
from fractions import Fraction

import numpy as np
import torch
import torch.nn as nn
import z3

import symtorch as st
from symtorch import Explorer, SymMode, SymTensor, swapped_params
from vlib import pitlib, snlib, mpslib
from vlib.harness import InstanceResult, jsonable

PROPERTY = 'C18'
TECHNIQUE = 'symbolic execution of the real observers from an arbitrary (z3-real) architectural state: state / output / cost / summary snapshots before and after each operation compared by the solver; literal sequences of length 2'
FUNCTIONS_ENCODED = ['PIT/MPS/SuperNet.export/summary/cost/get_cost/cost_specification setter/_get_single_cost', 'pit|mps|supernet/graph.py convert(export)', 'SuperNetCombiner.get_cost/summary', 'PIT*.get_modified_vars', 'MPS*.get_cost']
BOUNDS = {'quick': 'PIT: T1(K=2) and D2 (full_cost on/off); MPS: ML per-layer; SuperNet: S(2,conv) full_cost on/off; every single operation + all sequences of 2 operations; training flag in {eval, train}; PIT X1 with an excluded layer and full_cost',
          'thorough': 'PIT T2 / A1 / W1, MPS MD per-layer and per-channel, SuperNet S(3,mix) and 2 blocks; sequences of 3 operations'}
OUTSIDE = ['train-mode forward arithmetic (flags, state, cost and summary are compared in train mode; outputs only in eval mode)', 'optimizer state', 'Gumbel sampling (random by design)']
ASSUMPTIONS = ['SuperNet / MPS coefficients have been sampled by a forward pass before the snapshot (the "usual forward pass")']
INSTANCE_TIMEOUT_S = {'quick': 1800, 'thorough': 3600}
Q = 60000


def instances(tier, seed):
    out = []
    cfgs = [('PIT', {'fam': 'T1', 'K': 2, 'C': 2}, False), ('PIT', {'fam': 'D2', 'C': 2, 'cin': 2}, True), ('PIT', {'fam': 'T1', 'K': 2, 'C': 2}, True),
            ('MPS', {'fam': 'ML', 'bn': False, 'wtype': 'layer', 'w': [2, 8], 'a': [4, 8]}, False), ('MPS', {'fam': 'ML', 'bn': False, 'wtype': 'layer', 'w': [2, 8], 'a': [4, 8]}, True),
            ('SuperNet', {'n': 2, 'kind': 'conv'}, False), ('SuperNet', {'n': 2, 'kind': 'conv'}, True),
            # a layer excluded from the search: with full_cost its (constant) cost is part of every metric
            ('PIT', {'fam': 'X1', 'kind': 'conv', 'exclude': 'name'}, True, (False,)),
            # training model with one activation quantizer (shared by a producer and its consumer) individually frozen in eval mode
            ('MPS', {'fam': 'ML', 'bn': False, 'wtype': 'layer', 'w': [2, 8], 'a': [4, 8], 'frozen_q': True}, False, (True,))]
    if tier == 'thorough':
        cfgs += [('PIT', {'fam': 'X1', 'kind': 'conv', 'exclude': 'name'}, True, (True,)), ('PIT', {'fam': 'X1', 'kind': 'linear', 'exclude': 'type'}, True)]
        cfgs += [('PIT', {'fam': 'A1', 'K': 2, 'C': 2}, True), ('PIT', {'fam': 'W1', 'nd': 2}, True), ('MPS', {'fam': 'MD', 'wtype': 'layer', 'w': [2, 8], 'a': [4, 8]}, True),
                 ('SuperNet', {'n': 3, 'kind': 'mix'}, True), ('SuperNet', {'n': 2, 'kind': 'mix', 'blocks': 2}, True)]
    for cfg in cfgs:
        method, spec, full = cfg[:3]
        ops = OPS[method]
        seqs = [(o,) for o in ops] + list(itertools.product(ops, repeat=2)) + (list(itertools.product(ops, repeat=3)) if tier == 'thorough' and method != 'PIT' else [])
        for training in (cfg[3] if len(cfg) > 3 else (False, True)):
            for i in range(0, len(seqs), 8):
                chunk = seqs[i:i + 8]
                ident = pitlib.prog_id(spec) if method == 'PIT' else (mpslib.prog_id(spec) if method == 'MPS' else snlib.prog_id(spec))
                out.append({'id': f'{method}:{ident}:full={int(full)}:train={int(training)}:seqs{i}-{i + len(chunk) - 1}', 'method': method, 'spec': spec, 'full': full,
                            'training': training, 'seqs': [list(s) for s in chunk], 'wseed': seed})
    return out


OPS = {'PIT': ['export', 'export_nobn', 'summary', 'cost', 'get_cost:ops', 'spec_switch', 'spec_switch_back'],
       'MPS': ['export', 'summary', 'cost', 'get_cost:ops_bit', 'spec_switch', 'spec_switch_back'],
       'SuperNet': ['export', 'summary', 'cost', 'get_cost:ops', 'spec_switch', 'spec_switch_back']}


def build(method, spec, full, training, wseed):
    if method == 'PIT':
        from plinio.cost import params, ops
        w, model, shape = pitlib.make_pit(spec, wseed, cost={'params': params, 'ops': ops}, full_cost=full)
    elif method == 'MPS':
        from plinio.cost import params_bit, ops_bit
        w, model, shape = mpslib.make_mps(spec, wseed, cost={'params_bit': params_bit, 'ops_bit': ops_bit}, full_cost=full)
    else:
        from plinio.cost import params, ops
        w, model, shape = snlib.make_sn(spec, wseed, cost={'params': params, 'ops': ops}, full_cost=full)
    w.train(training)
    if spec.get('frozen_q'):
        from plinio.methods.mps.nn.qtz import MPSBaseQtz
        for n_, q_ in w.named_modules():
            if isinstance(q_, MPSBaseQtz) and n_.endswith('fc0.out_mps_quantizer'):
                q_.eval()
    return w, shape


def cost_names(method):
    return ('params_bit', 'ops_bit') if method == 'MPS' else ('params', 'ops')


def apply_op(method, w, op):
    names = cost_names(method)
    if op == 'export':
        return w.export()
    if op == 'export_nobn':
        return w.export(add_bn=False)
    if op == 'summary':
        w.summary()
    elif op == 'cost':
        w.get_cost(names[0])
    elif op.startswith('get_cost:'):
        w.get_cost(op.split(':')[1])
    elif op in ('spec_switch', 'spec_switch_back'):
        cs = w.cost_specification
        other = {names[0]: cs[names[1]], names[1]: cs[names[0]]}
        w.cost_specification = other
        if op == 'spec_switch':
            # "switching the cost specification and switching it back restores the same cost values": read the costs in between, then restore
            for n in names:
                w.get_cost(n)
        w.cost_specification = cs
    return None


def _attr_repr(v):
    if isinstance(v, torch.Tensor):
        return ('tensor', tuple(v.shape))
    if isinstance(v, (int, float, str, bool, tuple, type(None))):
        return v
    return type(v).__name__


def static_snapshot(w):
    """flags and attributes that must be bit-identical"""
    snap = {'training': {n: m.training for n, m in w.named_modules()}, 'requires_grad': {n: p.requires_grad for n, p in w.named_parameters()},
            'state_keys': sorted(w.state_dict().keys()),
            # whether each buffer (sampled selection coefficients among them) is still connected to the autograd graph: "the search can
            # continue afterwards exactly as if they had not been called" includes the gradient of the next cost evaluation
            'buffer_grad': {f'{n}.{bn}': bool(b.requires_grad) for n, m in w.named_modules() for bn, b in m._buffers.items() if isinstance(b, torch.Tensor)}}
    attrs = {}
    for n, m in w.named_modules():
        if isinstance(m, (nn.Conv1d, nn.Conv2d, nn.Linear, nn.BatchNorm1d, nn.BatchNorm2d)):
            attrs[n] = {k: _attr_repr(v) for k, v in vars(m).items() if not k.startswith('_') and k not in ('training',)}
    snap['attrs'] = attrs
    return snap


def tensor_snapshot(w):
    out = {}
    for k, v in w.state_dict().items():
        out[k] = st.to_arr(v).copy() if isinstance(v, torch.Tensor) else v
    return out


def static_diff(a, b):
    # attributes ADDED to a layer's __dict__ (the cost paths cache 'output_shape' there) are not among the things the property lists; the
    # attributes that existed before must keep their values
    b = dict(b)
    b['attrs'] = {n: {k: v for k, v in d.items() if k in a['attrs'].get(n, {})} for n, d in b['attrs'].items()}
    for part in ('training', 'requires_grad', 'state_keys', 'buffer_grad', 'attrs'):
        if a[part] != b[part]:
            if isinstance(a[part], dict):
                ks = [k for k in set(a[part]) | set(b[part]) if a[part].get(k) != b[part].get(k)]
                return part, f'{part} changed for {ks[:3]}: {[(a[part].get(k), b[part].get(k)) for k in ks[:2]]}'[:400]
            return part, f'{part} changed'
    return None


def observe(method, w, shape, x, training):
    """cost terms, summary, output term (eval only)"""
    names = cost_names(method)
    costs = {n: st.scalar_of(w.get_cost(n)) for n in names}
    summ = w.summary()
    summ = {k: {a: (list(b) if isinstance(b, tuple) else (b if not isinstance(b, torch.Tensor) else float(b))) for a, b in v.items() if not isinstance(b, (nn.Parameter,))} for k, v in summ.items()}
    y = w(x) if not training else None
    return costs, summ, y


def concrete_run(rec):
    """plain torch: returns description of the first difference, or None"""
    method, spec = rec['method'], rec['spec']
    w, shape = build(method, spec, rec['full'], rec['training'], rec.get('wseed', 0))
    _set_nas(method, w, rec['nas'])
    x = torch.tensor([float(Fraction(v)) for v in rec['x']], dtype=torch.float32).reshape((1,) + tuple(shape))
    torch.manual_seed(0)
    with torch.enable_grad():
        if method != 'PIT':
            w(x)
        s0 = static_snapshot(w)
        t0 = {k: v.clone() for k, v in w.state_dict().items()}
        c0 = {n: float(w.get_cost(n)) for n in cost_names(method)}
        sm0 = str(w.summary())
        y0 = w(x) if not rec['training'] else None
        try:
            for op in rec['sequence']:
                apply_op(method, w, op)
        except Exception as e:
            return f'{op} raised {type(e).__name__}: {e}'[:300]
        d = static_diff(s0, static_snapshot(w))
        if d:
            return f'{d[0]}: {d[1]}'
        for k, v in w.state_dict().items():
            if not torch.equal(v, t0[k]):
                return f'state: tensor {k} changed'
        c1 = {n: float(w.get_cost(n)) for n in cost_names(method)}
        if any(abs(c0[n] - c1[n]) > 1e-5 * max(1, abs(c0[n])) for n in c0):
            return f'cost: {c0} -> {c1}'
        for nme in cost_names(method):
            tw, _ = build(method, spec, rec['full'], rec['training'], rec.get('wseed', 0))
            _set_nas(method, tw, rec['nas'])
            torch.manual_seed(0)
            if method != 'PIT':
                tw(x)
            ct = float(tw.get_cost(nme))
            if abs(ct - c1[nme]) > 1e-5 * max(1, abs(ct)):
                return f'cost: {nme} = {c1[nme]} but an untouched twin in the same state gives {ct}'
        if str(w.summary()) != sm0:
            return 'summary: changed'
        if y0 is not None:
            y1 = w(x)
            if float((y0 - y1).abs().max()) > 1e-5:
                return f'output: {y0.reshape(-1).tolist()} -> {y1.reshape(-1).tolist()}'
    return None


def _nas_syms(method, w, ex):
    if method == 'PIT':
        return pitlib.fresh_masks(w)
    if method == 'MPS':
        return mpslib.fresh_alphas(w, ex)
    return snlib.fresh_alphas(w, ex, distinct=True)


def _set_nas(method, w, values):
    if method == 'PIT':
        pitlib.set_masks(w, values)
    elif method == 'MPS':
        mpslib.set_alphas(w, values)
    else:
        snlib.set_alphas(w, values)


def _grid(method, ex, sy, extra=()):
    if method == 'PIT':
        return pitlib.grid_model(ex, sy, list(extra))[0]
    if method == 'MPS':
        return mpslib.grid_model(ex, sy, list(extra))
    return snlib.grid_model(ex, sy, list(extra))


def replay(rec):
    d = concrete_run(rec)
    return d is not None and d.split(':')[0] == rec['observable'].split(':')[0], str(d)


def run_instance(p):
    res = InstanceResult(p['id'])
    method, spec, full, training, wseed, selftest = p['method'], p['spec'], p['full'], p['training'], p.get('wseed', 0), p.get('selftest', False)
    for seq in p['seqs']:
        _run_seq(res, method, spec, full, training, wseed, seq, selftest)
    return res


def _run_seq(res, method, spec, full, training, wseed, seq, selftest):
    w, shape = build(method, spec, full, training, wseed)
    # pristine twins, one per metric, that never see any other call: "exactly as if they had not been called"
    twins = {nme: build(method, spec, full, training, wseed)[0] for nme in cost_names(method)}

    def fn(ex):
        pairs, sy = _nas_syms(method, w, ex)
        ctx = mpslib.saved_thetas(w) if method == 'MPS' else contextlib_null()
        with SymMode(), swapped_params(pairs), ctx:
            x = SymTensor.fresh('x', (1,) + tuple(shape))
            try:
                if method == 'MPS' and training:
                    # soft sampling: sample the coefficients directly (a train-mode forward pushes symbolic mixtures through every quantiser
                    # without adding anything to what is compared here)
                    for q in ctx.qs:
                        q.sample_alpha()
                elif method != 'PIT':
                    w(torch.zeros((1,) + tuple(shape)))      # the usual forward pass: coefficients sampled
                s0 = static_snapshot(w)
                t0 = tensor_snapshot(w)
                c0, sm0, y0 = observe(method, w, shape, x, training)
                err, exps = None, []
                try:
                    for op in seq:
                        e = apply_op(method, w, op)
                        if e is not None:
                            exps.append(e)
                except Exception as e_:
                    err = f'{op} raised {type(e_).__name__}: {e_}'[:300]
                s1 = static_snapshot(w)
                t1 = tensor_snapshot(w)
                c1, sm1, y1 = (observe(method, w, shape, x, training) if err is None else (None, None, None))
                ctwin = {}
                if err is None:
                    for nme, tw in twins.items():
                        tp, _ = _nas_syms(method, tw, ex)
                        tctx = mpslib.saved_thetas(tw) if method == 'MPS' else contextlib_null()
                        with swapped_params(tp), tctx:
                            try:
                                if method == 'MPS' and training:
                                    for q in tctx.qs:
                                        q.sample_alpha()
                                elif method != 'PIT':
                                    tw(torch.zeros((1,) + tuple(shape)))
                                ctwin[nme] = st.scalar_of(tw.get_cost(nme))
                            finally:
                                if method == 'SuperNet':
                                    for _, c in snlib.combiners(tw):
                                        c.theta_alpha = torch.ones(c.n_branches) / c.n_branches
                yexp = None
                if len(exps) == 2 and not training:
                    yexp = (exps[0].eval()(x), exps[1].eval()(x))
            finally:
                if method == 'SuperNet':
                    for _, c in snlib.combiners(w):
                        c.theta_alpha = torch.ones(c.n_branches) / c.n_branches
        return sy, x, (s0, t0, c0, sm0, y0), (s1, t1, c1, sm1, y1), err, (yexp, ctwin if err is None else {})
    ex = Explorer(timeout_ms=Q)
    n = 0
    for pc, (sy, x, S0, S1, err, (yexp, ctwin)) in ex.explore(fn):
        n += 1
        problems = []
        (s0, t0, c0, sm0, y0), (s1, t1, c1, sm1, y1) = S0, S1
        if err is not None:
            problems.append(('raised', err, None))
        else:
            d = static_diff(s0, s1)
            if d:
                problems.append((d[0], d[1], None))
            for k in t0:
                if k in t1:
                    bad = st.any_differs(SymTensor.from_array(t0[k], torch.float32), SymTensor.from_array(t1[k], torch.float32)) if t0[k].shape == t1[k].shape else True
                    if bad is not False:
                        r, m = ex.must(bad) if bad is not True else ('sat', None)
                        if r == 'sat':
                            problems.append(('state', f'tensor {k} changed', bad if bad is not True else None))
                            break
            for nme in c0:
                bad = st.e_ne(c0[nme], c1[nme])
                if selftest and n == 1:
                    bad = True
                if bad is not False:
                    r, m = ex.must(bad) if bad is not True else ('sat', None)
                    if r == 'sat':
                        problems.append(('cost', f'{nme} cost changed', bad if bad is not True else None))
                        break
            for nme, ct in ctwin.items():
                bad = st.e_ne(c1[nme], ct)
                if bad is not False:
                    r, m = ex.must(bad) if bad is not True else ('sat', None)
                    if r == 'sat':
                        problems.append(('cost', f'{nme} cost differs from the cost of an untouched twin in the same state', bad if bad is not True else None))
                        break
            if sm0 != sm1:
                problems.append(('summary', f'summary changed: {sm0} -> {sm1}'[:300], None))
            if y0 is not None:
                bad = st.any_differs(y0, y1) if tuple(y0.shape) == tuple(y1.shape) else True
                if bad is not False:
                    r, m = ex.check(bad) if bad is not True else ('sat', None)
                    if r == 'unknown':
                        res.inconclusive.append(f'{seq}: output equivalence unknown')
                    elif r == 'sat':
                        problems.append(('output', 'output changed for some input', bad if bad is not True else None))
            if yexp is not None:
                bad = st.any_differs(yexp[0], yexp[1]) if tuple(yexp[0].shape) == tuple(yexp[1].shape) else True
                if bad is not False:
                    r, m = ex.check(bad) if bad is not True else ('sat', None)
                    if r == 'sat':
                        problems.append(('repeated_export', 'two consecutive exports differ', bad if bad is not True else None))
        res.oblige(not problems, 5)
        if not problems:
            if n <= 2:
                mm = _grid(method, ex, sy)
                if mm is not None:
                    nas = {k: [st.model_value(mm, v) for v in a.elems()] for k, a in sy.items()}
                    xv = [Fraction(i % 3, 2) for i in range(len(x.elems()))]
                    d = concrete_run({'method': method, 'spec': spec, 'full': full, 'training': training, 'wseed': wseed, 'nas': jsonable(nas), 'x': jsonable(xv), 'sequence': seq})
                    if n == 1 and len(res.samples) < 3:
                        res.sample({'method': method, 'sequence': seq, 'training': training, 'full_cost': full, 'nas': nas, 'difference_in_plain_torch': d})
                    if d is None:
                        res.validated += 1
                    else:
                        res.errors.append(f'engine: state preserved, plain torch: {d} for {seq}')
            continue
        obs, text, bad = problems[0]
        mm = _grid(method, ex, dict(sy, x=x) if method != 'PIT' else sy, [bad] if bad is not None else [])
        if mm is None:
            res.inconclusive.append(f'{seq}: no model for the counterexample')
            continue
        nas = {k: [st.model_value(mm, v) for v in a.elems()] for k, a in sy.items()}
        xv = [st.model_value(mm, v) for v in x.elems()]
        key = f'{method}|{obs}|after:{"+".join(seq)}|full={int(full)}|train={int(training)}' + ('|selftest' if selftest else '')
        if any(v['key'] == key for v in res.violations):
            continue
        rec = {'method': method, 'spec': spec, 'full': full, 'training': training, 'wseed': wseed, 'nas': nas, 'x': xv, 'sequence': seq, 'observable': obs, 'key': key,
               'what': f'{method} (full_cost={full}, training={training}) after {seq}: {text}'}
        if selftest:
            res.violations.append(jsonable(rec))
            continue
        okr, msg = replay(jsonable(rec))
        if okr:
            rec['replay_msg'] = msg
            res.violations.append(jsonable(rec))
        else:
            res.errors.append(f'counterexample did not reproduce: {key}: {msg[:300]}')
    res.witnesses += 1
    res.witnesses_ok += 1 if ex.n_paths >= 1 else 0
    res.absorb(ex)


class contextlib_null:
    def __enter__(self):
        return self

    def __exit__(self, *a):
        return False
