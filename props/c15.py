"""C15 - cost-function lookup depends on the layer, not on registration order.

Engine A (symtorch explorer): the real CostSpec.__setitem__/__getitem__ and the real constraint functions
conv_dw_constraint / conv_3_constraint run on a layer spec whose in_channels, out_channels, groups and kernel sizes are
z3 integers (SymScalar proxies); a user constraint is a fresh boolean.  Registration sequences (every ordered subset of
the 4 patterns) and the default behaviour are enumerated, which subsets of constraints a layer satisfies is decided by the
solver path by path, and the returned function is compared with the declarative rule on every feasible path.
Engine B (CrossHair): the same harness with the order as a symbolic integer, as an independent implementation.
"""
import itertools
import os
import re
import subprocess
import sys
import time

import z3

import symtorch as st
from symtorch import Explorer, SymScalar
from vlib.harness import InstanceResult, jsonable, VERIF, REPO

PROPERTY = 'C15'
TECHNIQUE = 'symbolic execution of the real CostSpec lookup with z3 integer layer specs (all ordered subsets of 4 patterns enumerated); CrossHair as second engine'
FUNCTIONS_ENCODED = ['CostSpec.__init__', 'CostSpec.__setitem__', 'CostSpec.__getitem__', 'pattern.conv_dw_constraint',
                     'pattern.conv_3_constraint', 'cost_spec_zero_fn / cost_spec_fail_fn (identity of the returned default)']
BOUNDS = {
    'quick': 'all 65 ordered subsets of {unconstrained, depthwise, 3x3, user constraint} x defaults {zero, fail} x Conv1d and Conv2d specs with symbolic in/out channels, groups in [1,64], kernel sizes in [1,7]; CrossHair as bug hunter only (45 s)',
    'thorough': 'same + a second unrelated layer type registered in between (interleaving with other types), ; CrossHair must confirm the reduced domain (channels, groups in [1,3], kernel sizes in [2,4]) over all paths',
}
OUTSIDE = ['more than one unconstrained pattern per layer type', 'more than 4 patterns per type', 'constraints with side effects']
ASSUMPTIONS = ['the declarative rule of plinio/cost/README.md: constrained match > unconstrained > default; conflict error iff two different constrained patterns match',
               'at most one unconstrained pattern per layer type']
INSTANCE_TIMEOUT_S = {'quick': 600, 'thorough': 1200}

PATTERNS = ('generic', 'dw', 'k3', 'user')


def instances(tier, seed):
    out = []
    for nd in (1, 2):
        for default in ('zero', 'fail'):
            out.append({'id': f'explorer:conv{nd}d:{default}', 'kind': 'explorer', 'nd': nd, 'default': default,
                        'interleave': tier == 'thorough'})
    # CrossHair: bug hunting with a 45 s budget in the quick tier (a 'Not confirmed' without counterexample is reported as such,
    # the deciding engine is the explorer above); in the thorough tier the reduced domain must be confirmed over all paths
    # two USER constraints for the same layer type, both anonymous functions defined in the same scope (same __qualname__)
    for default in ('zero', 'fail'):
        out.append({'id': f'explorer:conv2d:{default}:two_user_constraints', 'kind': 'explorer', 'nd': 2, 'default': default, 'interleave': False,
                    'patterns': ['generic', 'dw', 'user', 'user2']})
    # the unconstrained pattern of the type registered twice (a later assignment replaces / shadows the earlier one) among constrained ones
    for default in ('zero', 'fail'):
        out.append({'id': f'explorer:conv2d:{default}:generic_twice', 'kind': 'explorer', 'nd': 2, 'default': default, 'interleave': False,
                    'patterns': ['generic', 'generic2', 'dw', 'k3']})
    out.append({'id': 'crosshair', 'kind': 'crosshair', 'timeout': 45 if tier == 'quick' else 400, 'must_confirm': tier != 'quick'})
    return out


def reference(order, sat, default):
    """the declarative rule. order: tuple of pattern names as registered; sat: dict name->bool (constraint truth)"""
    matches = [p for p in order if p not in ('generic', 'generic2') and sat[p]]
    if len(matches) >= 2:
        return 'CONFLICT'
    if len(matches) == 1:
        return matches[0]
    if 'generic' in order or 'generic2' in order:
        return 'generic'        # either registration of the unconstrained pattern (which of the two is kept is not specified)
    return 'default:' + default


def build_spec_and_lookup(order, default, nd, spec, user_constraint, interleave=False, user2_constraint=None):
    """runs the real code; returns the name of what the lookup yields"""
    import torch.nn as nn
    from plinio.cost import CostSpec
    from plinio.cost.cost_spec import cost_spec_zero_fn, cost_spec_fail_fn
    from plinio.cost.pattern import conv_dw_constraint, conv_3_constraint
    ltype = nn.Conv1d if nd == 1 else nn.Conv2d
    fns = {p: (lambda s, _p=p: _p) for p in PATTERNS + ('user2', 'generic2')}
    constr = {'generic': None, 'generic2': None, 'dw': conv_dw_constraint, 'k3': conv_3_constraint, 'user': user_constraint, 'user2': user2_constraint}
    cs = CostSpec(shared=True, default_behavior=default)
    for i, p in enumerate(order):
        if interleave:
            cs[(nn.Linear, None)] = lambda s: 'other'
            cs[(nn.Linear, (lambda s: True) if i % 2 else None)] = lambda s: 'other2'
        cs[(ltype, constr[p])] = fns[p]
    try:
        fn = cs[(ltype, spec)]
    except KeyError as e:
        return 'CONFLICT' if 'conflict' in str(e).lower() else f'KeyError:{e}'
    for p in PATTERNS + ('user2', 'generic2'):
        if fn is fns[p]:
            return 'generic' if p == 'generic2' else p
    if fn is cost_spec_zero_fn:
        return 'default:zero'
    if fn is cost_spec_fail_fn:
        return 'default:fail'
    return f'unknown:{fn}'


def concrete_case(rec):
    spec = {'in_channels': rec['in_channels'], 'out_channels': rec['out_channels'], 'groups': rec['groups'],
            'kernel_size': tuple(rec['kernel_size'])}
    user, user2 = bool(rec['user']), bool(rec.get('user2', False))
    got = build_spec_and_lookup(tuple(rec['order']), rec['default'], rec['nd'], spec, lambda s: user, rec.get('interleave', False), lambda s: user2)
    sat = {'dw': spec['in_channels'] == spec['groups'] and spec['out_channels'] == spec['groups'],
           'k3': all(k == 3 for k in spec['kernel_size']), 'user': user, 'user2': user2}
    sat = {k: (v and k in rec['order']) for k, v in sat.items()}
    want = reference(tuple(rec['order']), sat, rec['default'])
    return got, want


def replay(rec):
    got, want = concrete_case(rec)
    return got != want, f"lookup returned {got}, rule says {want} for order={rec['order']} spec={ {k: rec[k] for k in ('in_channels', 'out_channels', 'groups', 'kernel_size', 'user')} }"


def run_instance(p):
    res = InstanceResult(p['id'])
    if p['kind'] == 'crosshair':
        return _run_crosshair(res, p)
    nd, default = p['nd'], p['default']
    selftest = p.get('selftest', False)
    seqs = []
    pats = tuple(p.get('patterns', PATTERNS))
    for k in range(0, 5):
        for sub in itertools.combinations(pats, k):
            for order in itertools.permutations(sub):
                seqs.append(order)
    tot = Explorer(timeout_ms=30000)
    for order in seqs:
        def fn(ex):
            cin, cout, g = z3.Int('cin'), z3.Int('cout'), z3.Int('groups')
            ks = [z3.Int(f'k{i}') for i in range(nd)]
            u = z3.Bool('user')
            u2 = z3.Bool('user2')
            for v in (cin, cout, g):
                ex.assume(v >= 1, v <= 64)
            for k_ in ks:
                ex.assume(k_ >= 1, k_ <= 7)
            spec = {'in_channels': SymScalar(cin), 'out_channels': SymScalar(cout), 'groups': SymScalar(g),
                    'kernel_size': tuple(SymScalar(k_) for k_ in ks)}
            got = build_spec_and_lookup(order, default, nd, spec, lambda s: ex.branch(u), p.get('interleave', False), lambda s: ex.branch(u2))
            # truth of each constraint on this path, decided by the solver (not by re-running python code)
            sat = {}
            terms = {'dw': z3.And(cin == g, cout == g), 'k3': z3.And([k_ == 3 for k_ in ks]), 'user': u, 'user2': u2}
            for name, t in terms.items():
                if name not in order:
                    sat[name] = False
                    continue
                r_t, _ = ex.must(t, want_model=False)
                r_f, _ = ex.must(z3.Not(t), want_model=False)
                if r_t == 'sat' and r_f == 'sat':
                    # the lookup did not need this constraint on this path (e.g. it raised earlier): split
                    sat[name] = ex.branch(t)
                else:
                    sat[name] = r_t == 'sat'
            want = reference(order, sat, default)
            if selftest and want == 'generic':
                want = 'default:' + default
            r, m = ex.must()
            vals = {'in_channels': m.eval(cin, True).as_long(), 'out_channels': m.eval(cout, True).as_long(),
                    'groups': m.eval(g, True).as_long(), 'kernel_size': [m.eval(k_, True).as_long() for k_ in ks],
                    'user': z3.is_true(m.eval(u, True)), 'user2': z3.is_true(m.eval(u2, True))}
            return got, want, vals
        ex = Explorer(timeout_ms=30000)
        for pc, (got, want, vals) in ex.explore(fn):
            ok = got == want
            res.oblige(ok)
            rec = dict(vals, order=list(order), default=default, nd=nd, interleave=p.get('interleave', False))
            if len(order) == 3:
                res.sample({'order': order, 'spec': vals, 'lookup': got, 'rule': want})
            if ok:
                cg, cw = concrete_case(rec)
                if cg == got:
                    res.validated += 1
                else:
                    res.errors.append(f'concolic mismatch: engine {got} real {cg} for {rec}')
            else:
                pos = {n: i for i, n in enumerate(order)}
                shape = 'constrained-before-unconstrained' if (got == 'CONFLICT' and 'generic' in order) else f'{got}-instead-of-{want}'
                rec['key'] = f"lookup|{shape}|n={len(order)}" + ('|selftest' if selftest else '')
                rec['what'] = f"order={order} default={default} spec={vals}: lookup gives {got}, documented rule gives {want}"
                if selftest:
                    res.violations.append(jsonable(rec))
                    continue
                okr, msg = replay(rec)
                if okr:
                    if not any(v['key'] == rec['key'] for v in res.violations):
                        res.violations.append(jsonable(rec))
                else:
                    res.errors.append('counterexample did not reproduce: ' + msg)
        res.absorb(ex)
    res.witnesses += 1
    res.witnesses_ok += 1 if res.paths > len(seqs) else 0   # some sequence must fork on a constraint
    return res


# ---------------------------------------------------------------------------------------------------------------------
CROSSHAIR_HARNESS = '''
import itertools, sys
sys.path.insert(0, %(repo)r)
import torch.nn as nn
from plinio.cost import CostSpec
from plinio.cost.cost_spec import cost_spec_zero_fn, cost_spec_fail_fn
from plinio.cost.pattern import conv_dw_constraint, conv_3_constraint

SEQS = [o for k in range(5) for sub in itertools.combinations(range(4), k) for o in itertools.permutations(sub)]


def lookup_follows_rule(seq: int, cin: int, cout: int, groups: int, k0: int, k1: int, user: bool, fail: bool) -> bool:
    """
    pre: 0 <= seq < 65 and 1 <= cin <= 64 and 1 <= cout <= 64 and 1 <= groups <= 64 and 1 <= k0 <= 7 and 1 <= k1 <= 7
    post: _ == True
    """
    order = SEQS[seq]
    spec = {'in_channels': cin, 'out_channels': cout, 'groups': groups, 'kernel_size': (k0, k1)}
    constr = [None, conv_dw_constraint, conv_3_constraint, (lambda s: user)]
    fns = [(lambda s, i=i: i) for i in range(4)]
    cs = CostSpec(shared=True, default_behavior='fail' if fail else 'zero')
    for p in order:
        cs[(nn.Conv2d, constr[p])] = fns[p]
    sat = [False, (cin == groups and cout == groups), (k0 == 3 and k1 == 3), user]
    matches = [p for p in order if p != 0 and sat[p]]
    try:
        fn = cs[(nn.Conv2d, spec)]
    except KeyError:
        return len(matches) >= 2
    if len(matches) >= 2:
        return False
    if len(matches) == 1:
        return fn is fns[matches[0]]
    if 0 in order:
        return fn is fns[0]
    return fn is (cost_spec_fail_fn if fail else cost_spec_zero_fn)


def witness_reachable(seq: int, cin: int, groups: int) -> bool:
    """
    pre: 0 <= seq < 65 and 1 <= cin <= 64 and 1 <= groups <= 64
    post: _ == True
    """
    # vacuity twin: must be refuted (a depthwise layer exists)
    return not (cin == groups and seq == 64)
'''


def _run_crosshair(res, p):
    import tempfile
    d = tempfile.mkdtemp(prefix='c15ch_')
    path = os.path.join(d, 'c15_harness.py')
    src = CROSSHAIR_HARNESS % {'repo': REPO}
    if p.get('must_confirm'):
        src = src.replace("1 <= cin <= 64 and 1 <= cout <= 64 and 1 <= groups <= 64 and 1 <= k0 <= 7 and 1 <= k1 <= 7",
                          "1 <= cin <= 3 and 1 <= cout <= 3 and 1 <= groups <= 3 and 2 <= k0 <= 4 and 2 <= k1 <= 4")
    open(path, 'w').write(src)
    t0 = time.time()
    cmd = [sys.executable, '-m', 'crosshair', 'check', '--report_all', '--per_condition_timeout', str(p['timeout']),
           '--per_path_timeout', '20', path]
    try:
        out = subprocess.run(cmd, capture_output=True, text=True, timeout=p['timeout'] * 3 + 120,
                             env=dict(os.environ, PYTHONPATH=REPO)).stdout
    except subprocess.TimeoutExpired:
        res.inconclusive.append('crosshair timed out')
        return res
    finally:
        pass
    import shutil
    res.solver_s += time.time() - t0
    res.extra['crosshair_output'] = out[-2000:]
    lines = [l for l in out.splitlines() if l.strip()]
    main_ok = main_bad = wit_bad = False
    for l in lines:
        if 'lookup_follows_rule' in l or ':17:' in l:
            pass
    # CrossHair reports per condition (by line number of the def); find the messages
    for l in lines:
        m = re.search(r'error: (.*)$', l)
        info = re.search(r'info: (.*)$', l)
        lineno = re.search(r':(\d+):', l)
        ln = int(lineno.group(1)) if lineno else -1
        in_main = ln != -1 and ln < _line_of(path, 'def witness_reachable')
        if m:
            if in_main:
                main_bad = True
                cex = re.search(r'calling lookup_follows_rule\(([^)]*)\)', l)
                res.extra['crosshair_cex'] = cex.group(1) if cex else l
            else:
                wit_bad = True
        elif info and 'Confirmed over all paths' in info.group(1) and in_main:
            main_ok = True
    shutil.rmtree(d, ignore_errors=True)
    res.paths += 1
    res.witnesses += 1
    res.witnesses_ok += 1 if wit_bad else 0
    selftest = p.get('selftest', False)
    if main_bad:
        res.oblige(False)
        cex = res.extra.get('crosshair_cex', '')
        rec = _parse_cex(cex)
        if rec is None:
            res.errors.append(f'could not parse CrossHair counterexample: {cex}')
        else:
            okr, msg = replay(rec)
            if okr:
                got, want = concrete_case(rec)
                shape = 'constrained-before-unconstrained' if (got == 'CONFLICT' and 'generic' in rec['order']) else f'{got}-instead-of-{want}'
                rec['key'] = f"lookup|{shape}|n={len(rec['order'])}"
                rec['what'] = 'CrossHair: ' + msg
                res.violations.append(jsonable(rec))
            else:
                res.errors.append('CrossHair counterexample did not reproduce: ' + msg)
    elif main_ok:
        res.oblige(True)
        res.sample({'crosshair': 'lookup_follows_rule: Confirmed over all paths'})
    else:
        if selftest:
            return res
        if not p.get('must_confirm'):
            res.notes.append('CrossHair (bug-hunting budget %d s): no counterexample, not confirmed over all paths' % p['timeout'])
            return res
        res.inconclusive.append('CrossHair neither confirmed nor refuted lookup_follows_rule: ' + ' | '.join(lines[-4:])[:500])
    return res


def _line_of(path, needle):
    for i, l in enumerate(open(path), 1):
        if needle in l:
            return i
    return 10 ** 9


def _parse_cex(s):
    try:
        args = eval('dict(' + ','.join(f'a{i}={v}' for i, v in enumerate(_split_args(s))) + ')') if '=' not in s else eval('dict(' + s + ')')
    except Exception:
        return None
    if 'seq' not in args:
        names = ['seq', 'cin', 'cout', 'groups', 'k0', 'k1', 'user', 'fail']
        args = {n: args[f'a{i}'] for i, n in enumerate(names)}
    seqs = [o for k in range(5) for sub in itertools.combinations(range(4), k) for o in itertools.permutations(sub)]
    order = [PATTERNS[i] for i in seqs[args['seq']]]
    return {'order': order, 'default': 'fail' if args['fail'] else 'zero', 'nd': 2, 'in_channels': args['cin'], 'out_channels': args['cout'],
            'groups': args['groups'], 'kernel_size': [args['k0'], args['k1']], 'user': bool(args['user'])}


def _split_args(s):
    return [a.strip() for a in s.split(',')]
