"""C05 - MPS cost equals the exact bit-cost of the selected precision assignment.

Every selection coefficient alpha is a z3 real (arg-max margin >= 0.05).  The MPS model runs one eval-mode forward (the engine
forks on every arg-max: one path per precision assignment), and on every path
   get_cost('params_bit') == sum_layers (#weights) x (selected weight bits)          (computed from scratch from summary())
   get_cost('ops_bit')    == sum_layers MACs x weight bits x input bits
   what each layer's cost function is SHOWN under the PyTorch attribute names of its layer type (in_channels/out_channels for
   convolutions, in_features/out_features for linear layers) == alive features of the producing tensor / alive outputs.
"""
import copy
import time
from fractions import Fraction

import numpy as np
import torch
import torch.nn as nn
import z3

import symtorch as st
from symtorch import Explorer, SymMode, SymTensor, swapped_params
from vlib import mpslib
from vlib.harness import InstanceResult, jsonable

PROPERTY = 'C05'
TECHNIQUE = 'symbolic execution of the real MPS sampling/cost path on z3-real selection coefficients: one path per precision assignment, exact bit-cost and probing-spec obligations per path'
FUNCTIONS_ENCODED = ['MPSConv2d/MPSConv1d/MPSLinear.get_cost/get_modified_vars/out_features_eff', 'MPS.get_cost/_get_single_cost', 'MPSPerLayerQtz/MPSPerChannelQtz.sample_alpha_sm/out_features_eff/features_mask',
                     'STEArgmax', 'params_bit / ops_bit functions', 'MPS.summary (oracle input)', 'ModAttr/Flatten features calculators (MPS variants)']
BOUNDS = {'quick': 'programs MD (plain, +dw, +two linear), ML, M1D; per-layer w=(2,8) a=(4,8); per-channel without and with the 0-bit option (C = 2 channels); metrics {params_bit, ops_bit} + probing spec; MR (weight-shared Conv1d head invoked at two resolutions: per-invocation MACs); cost after the coefficients are written into a used model',
          'thorough': 'MD with BN / pooling / 3 channels, MA (residual add), w tuples (2,4,8) and (8,2), a tuples (8,), (2,4,8)'}
OUTSIDE = ['assignments in which every channel of some layer selects 0 bit (the layer disappears; MPS has no keep-alive)', 'soft (non one-hot) sampling: the statement is about eval / hard mode', 'mpic / ne16 latency (their exactness is relative to their own models, see C16)', 'float32 rounding of cost sums']
ASSUMPTIONS = ['arg-max margin >= 0.05 between competing coefficients', 'the exact cost is recomputed from summary(), layer hyper-parameters and the program topology (alive inputs = producer channels whose selected precision is not 0)']
INSTANCE_TIMEOUT_S = {'quick': 1500, 'thorough': 3600}
Q = 60000


def instances(tier, seed):
    progs = [{'fam': 'MD'}, {'fam': 'MD', 'dw': True}, {'fam': 'ML', 'bn': False}, {'fam': 'M1D'}, {'fam': 'MR'}]
    if tier == 'thorough':
        progs += [{'fam': 'MD', 'bn': True}, {'fam': 'MD', 'pool': 'max', 'HW': 5}, {'fam': 'MD', 'C': 3}, {'fam': 'MA'}, {'fam': 'ML', 'bn': True}]
    out = []
    for s in progs:
        variants = [('layer', (2, 8)), ('channel', (2, 8)), ('channel', (0, 2, 8))]
        if tier == 'thorough':
            variants += [('layer', (2, 4, 8)), ('layer', (8, 2)), ('channel', (0, 8))]
        for wtype, w in variants:
            sp = dict(s, wtype=wtype, w=list(w), a=[4, 8] if tier == 'quick' else [4, 8])
            out.append({'id': mpslib.prog_id(sp), 'spec': sp, 'wseed': seed})
            if wtype == 'layer' and s == progs[0]:
                # the network input searches other precisions than the layers' activations
                sp2 = dict(sp, a_in=[8] if w == (2, 8) else [2, 4, 8])
                out.append({'id': mpslib.prog_id(sp2), 'spec': sp2, 'wseed': seed})
                # selection coefficients with a tie for the maximum in some decision (e.g. a uniform initialisation)
                sp3 = dict(sp, ties=True)
                out.append({'id': mpslib.prog_id(sp3), 'spec': sp3, 'wseed': seed})
            if wtype == 'layer' and not s.get('bn'):
                # hard-sampling mode reached through an option update while training (the statement: "eval or hard-sampling mode")
                out.append({'id': mpslib.prog_id(sp) + ':train+hard', 'spec': sp, 'wseed': seed, 'train_hard': True})
    # the coefficients are written (through .data / in place) into a model whose cost and summary have already been read at the previous coefficients
    for s in ({'fam': 'ML', 'bn': False}, {'fam': 'MD'}):
        for hist in ('data', 'nograd'):
            sp = dict(s, wtype='layer', w=[2, 8], a=[4, 8])
            out.append({'id': mpslib.prog_id(sp) + f':after_use+{hist}', 'spec': sp, 'wseed': seed, 'hist': hist})
    return out


def _specs():
    from plinio.cost import params_bit, ops_bit
    return {'params_bit': params_bit, 'ops_bit': ops_bit}


def expected_inputs(spec, m, summ):
    """alive input features of every layer from the program topology and the selected precisions"""
    def alive(name):
        wp = summ[name]['w_precision']
        return sum(1 for b in wp if b != 0) if isinstance(wp, list) else None
    fam = spec['fam']
    exp = {}
    if fam == 'MD':
        C, cin, HW, k = spec.get('C', 2), spec.get('cin', 1), spec.get('HW', 3), spec.get('k', 2)
        o = HW - k + 1
        if spec.get('pool', 'none') != 'none':
            o //= 2
        exp['c0'] = cin
        last, width = 'c0', (alive('c0') if alive('c0') is not None else C)
        if spec.get('dw'):
            exp['dw'] = width
            width = min(width, alive('dw')) if alive('dw') is not None else width
        exp['fc'] = width * o * o
        if spec.get('two_fc'):
            exp['fc2'] = alive('fc') if alive('fc') is not None else 3
    elif fam == 'ML':
        exp['fc0'] = spec.get('nin', 3)
        exp['fc1'] = alive('fc0') if alive('fc0') is not None else spec.get('H', 2)
    elif fam == 'M1D':
        C, T = spec.get('C', 2), spec.get('T', 2)
        exp['c0'] = spec.get('cin', 1)
        exp['c1'] = alive('c0') if alive('c0') is not None else C
        exp['fc'] = (alive('c1') if alive('c1') is not None else C) * T
    elif fam == 'MR':
        C = spec.get('C', 2)
        exp['c0'] = spec.get('cin', 1)
        exp['head'] = alive('c0') if alive('c0') is not None else C
        exp['fc'] = alive('head') if alive('head') is not None else C
    elif fam == 'MA':
        C, HW = spec.get('C', 2), spec.get('HW', 2)
        exp['c0'] = exp['c1'] = spec.get('cin', 1)
        exp['fc'] = (alive('c0') if alive('c0') is not None else C) * HW * HW
    return exp


def exact_costs(spec, m, shape, summ):
    """exact bit costs from scratch (summary + hyper-parameters + topology)"""
    from plinio.methods.mps.nn import MPSConv2d, MPSLinear, MPSConv1d
    exp_in = expected_inputs(spec, m, summ)
    layers = {n: mod for n, mod in m.seed.named_modules() if isinstance(mod, (MPSConv2d, MPSConv1d, MPSLinear))}
    pos = {}
    hooks = [mod.register_forward_hook(lambda mo, i, o, _n=n: pos.setdefault(_n, []).append(tuple(o.shape))) for n, mod in layers.items()]    # one entry per invocation
    with torch.no_grad():
        m(torch.zeros((1,) + tuple(shape)))
    for h in hooks:
        h.remove()
    tot = {'params_bit': 0, 'ops_bit': 0}
    per = {}
    for name, mod in layers.items():
        s = summ[name]
        cout = mod.out_features if isinstance(mod, MPSLinear) else mod.out_channels
        wps = s['w_precision'] if isinstance(s['w_precision'], list) else [s['w_precision']] * cout
        if isinstance(mod, MPSLinear):
            per_out, npos = exp_in[name], 1
        else:
            k = int(np.prod(mod.kernel_size))
            dw = mod.groups > 1 and mod.groups == mod.in_channels == mod.out_channels
            per_out = k if dw else exp_in[name] * k
            npos = sum(int(np.prod(sh[2:])) for sh in pos[name])
        pb = sum(per_out * b for b in wps)
        tot['params_bit'] += pb
        tot['ops_bit'] += pb * npos * s['in_precision']
        per[name] = {'in_alive': exp_in[name], 'out_alive': sum(1 for b in wps if b != 0), 'params_bit': pb, 'ops_bit': pb * npos * s['in_precision']}
    return tot, per


def shown_counts(m):
    """what each layer's cost function is shown under the attribute names of the corresponding PyTorch layer type"""
    from plinio.methods.mps.nn import MPSConv2d, MPSLinear, MPSConv1d
    from plinio.graph.inspection import shapes_dict
    out = {}
    for lname, node, layer in m._unique_leaf_modules:
        if isinstance(layer, (MPSConv2d, MPSConv1d, MPSLinear)):
            names = ('in_features', 'out_features') if isinstance(layer, MPSLinear) else ('in_channels', 'out_channels')
            vals = []
            for nm in names:
                c = layer.get_cost(lambda v, _nm=nm: v[_nm] * 1.0 if isinstance(v[_nm], torch.Tensor) else torch.tensor(float(v[_nm])), shapes_dict(node))
                # in hard/eval mode exactly one (input precision, weight precision) pair has coefficient 1... except that per-channel layers
                # weight the value by the share of channels at each precision (mean of theta): the shares sum to 1
                vals.append(st.scalar_of(c.sum()))
            out[lname] = dict(zip(('in', 'out'), vals))
    return out


def concrete_case(rec):
    spec = rec['spec']
    m, model, shape = mpslib.make_mps(spec, rec.get('wseed', 0), cost=_specs())
    if spec['wtype'] == 'channel':
        rng = np.random.RandomState(rec.get('wseed', 0) + 7)
        with torch.no_grad():
            for name, q in mpslib.quantizers(m):
                if 'w_mps_quantizer' not in name:
                    q.alpha.copy_(torch.tensor(rng.permutation(q.alpha.shape[0]).astype('float32') / 4).reshape(q.alpha.shape))
    if rec.get('hist'):
        _use(m, shape)
    mpslib.set_alphas(m, rec['alphas'], rec.get('hist') or 'nograd')
    if rec.get('train_hard'):
        m.train()
        m.update_softmax_options(hard=True)
    with torch.no_grad():
        m(torch.zeros((1,) + tuple(shape)))
        got = {k: float(m.get_cost(k)) for k in ('params_bit', 'ops_bit')}
        shown = {k: {a: float(b) for a, b in v.items()} for k, v in shown_counts(m).items()}
    # the cost is read with and without autograd recording (validation loop vs. training step): the value furthest from the no_grad one is kept too
    got_g = {k: float(m.get_cost(k)) for k in ('params_bit', 'ops_bit')}
    got = {k: (got[k], got_g[k]) for k in got}
    summ = m.summary()
    tot, per = exact_costs(spec, m, shape, summ)
    return got, tot, shown, per, summ


def _use(m, shape):
    with torch.no_grad():
        m(torch.zeros((1,) + tuple(shape)))
    for k in ('params_bit', 'ops_bit'):
        m.get_cost(k)
    m.summary()


def replay(rec):
    got, tot, shown, per, summ = concrete_case(rec)
    obs = rec['observable']
    info = f'cost={got} exact={tot} shown={shown} expected={ {k: (v["in_alive"], v["out_alive"]) for k, v in per.items()} } summary={summ}'[:900]
    if obs in ('params_bit', 'ops_bit'):
        return any(abs(g - tot[obs]) > 1e-4 * max(1, tot[obs]) for g in got[obs]), info
    if obs.startswith('shown_'):
        side = obs.split('_')[1]
        l = rec['layer']
        want = per[l]['in_alive'] if side == 'in' else per[l]['out_alive']
        return abs(shown[l][side] - want) > 1e-4, info
    return False, info


def run_instance(p):
    res = InstanceResult(p['id'])
    spec, wseed, selftest = p['spec'], p.get('wseed', 0), p.get('selftest', False)
    m, model, shape = mpslib.make_mps(spec, wseed, cost=_specs())
    if p.get('train_hard'):
        m.train()
        m.update_softmax_options(hard=True)
    from plinio.methods.mps.nn import MPSLinear

    # per-channel search: p^C assignments per layer - the weight-precision coefficients are symbolic, the activation coefficients keep a fixed
    # (seed dependent) assignment, otherwise the number of paths explodes (stated bound)
    only = (lambda name: 'w_mps_quantizer' in name) if spec['wtype'] == 'channel' else None
    if only is not None:
        rng = np.random.RandomState(wseed + 7)
        with torch.no_grad():
            for name, q in mpslib.quantizers(m):
                if not only(name):
                    q.alpha.copy_(torch.tensor(rng.permutation(q.alpha.shape[0]).astype('float32') / 4).reshape(q.alpha.shape))

    hist = p.get('hist')

    def fn(ex):
        pairs, sy = mpslib.fresh_alphas(m, ex, only=only, ties=bool(spec.get('ties')))
        with SymMode(), mpslib.saved_thetas(m), (st.written_params(pairs, lambda: _use(m, shape), hist) if hist else swapped_params(pairs)):
            m(torch.zeros((1,) + tuple(shape)))           # eval mode: forks on every arg-max
            costs = {k: st.scalar_of(m.get_cost(k)) for k in ('params_bit', 'ops_bit')}
            with torch.no_grad():
                costs_ng = {k: st.scalar_of(m.get_cost(k)) for k in ('params_bit', 'ops_bit')}
            shown = shown_counts(m)
            summ = m.summary()
        return sy, (costs, costs_ng), shown, summ
    ex = Explorer(timeout_ms=Q)
    n = 0
    for pc, (sy, (costs, costs_ng), shown, summ) in ex.explore(fn):
        n += 1
        if any(isinstance(v.get('w_precision'), list) and all(b == 0 for b in v['w_precision']) for v in summ.values()):
            # every channel of some layer selected 0 bit: the layer is searched out of existence (MPS has no keep-alive); degenerate, outside the claim
            res.extra['skipped_all_pruned_paths'] = res.extra.get('skipped_all_pruned_paths', 0) + 1
            continue
        tot, per = exact_costs(spec, m, shape, summ)
        checks = []
        for k in ('params_bit', 'ops_bit'):
            checks.append((k, None, st.e_ne(costs[k], Fraction(tot[k] + (1 if selftest and k == 'params_bit' else 0))), costs[k]))
            bad_ng = st.e_ne(costs_ng[k], Fraction(tot[k]))
            if bad_ng is not False and str(bad_ng) != str(checks[-1][2]):
                checks.append((k, None, bad_ng, costs_ng[k]))          # the same metric read under torch.no_grad()
        for l, v in shown.items():
            checks.append(('shown_in', l, st.e_ne(v['in'], per[l]['in_alive']), None))
            checks.append(('shown_out', l, st.e_ne(v['out'], per[l]['out_alive']), None))
        bad_here = []
        for obs, layer, bad, term in checks:
            if bad is False:
                res.oblige(True)
                continue
            r, mm = ex.check(bad) if bad is not True else ex.check()
            if r == 'unknown':
                res.inconclusive.append(f'path {n} {obs} {layer}: unknown')
                continue
            res.oblige(r == 'unsat')
            if r == 'sat':
                bad_here.append((obs, layer, bad, term))
        mm = mpslib.grid_model(ex, sy, [])
        alphas = mpslib.values_of(mm, sy)
        if not bad_here:
            if n <= 6 or n % 5 == 0:
                got, tot_c, shown_c, per_c, summ_c = concrete_case({'spec': spec, 'wseed': wseed, 'alphas': jsonable(alphas), 'train_hard': p.get('train_hard', False), 'hist': hist})
                if n <= 2:
                    res.sample({'program': mpslib.prog_id(spec), 'alphas': alphas, 'summary': summ, 'cost': got, 'exact': tot_c})
                if all(abs(g - tot_c[k]) <= 1e-4 * max(1, tot_c[k]) for k in got for g in got[k]) and summ_c == summ:
                    res.validated += 1
                else:
                    res.errors.append(f'engine consistent but plain torch: cost {got} exact {tot_c} summary {summ_c} vs {summ}')
            continue
        for obs, layer, bad, term in bad_here:
            from plinio.methods.mps.nn import MPSConv2d, MPSConv1d
            lt = type(m.seed.get_submodule(layer)).__name__ if layer else 'model'
            zero = 0 in spec['w'] and spec['wtype'] == 'channel'
            direction = ''
            unrec = ''
            if obs in tot:
                cv = st.model_value(mm, term) if st.is_sym(term) else term
                direction = '|cost<exact' if cv < tot[obs] else '|cost>exact'
                if zero and cv < tot[obs]:
                    # the recorded finding (per-channel search with 0 bit) in executable form: every layer is charged its exact cost times
                    # (alive output channels / output channels) - the share of each precision is applied to the already reduced channel count.
                    # Any other value below the exact cost is a different defect.
                    recorded = Fraction(0)
                    for l_, v_ in per.items():
                        mod_ = m.seed.get_submodule(l_)
                        cout_ = mod_.out_features if isinstance(mod_, MPSLinear) else mod_.out_channels
                        recorded += Fraction(v_[obs]) * Fraction(v_['out_alive'], cout_)
                    if abs(Fraction(cv) - recorded) > Fraction(1, 10 ** 6) * max(1, abs(recorded)):
                        unrec = 'unrecorded|'
            key = unrec + ('train+hard|' if p.get('train_hard') else '') + (f'after_use+{hist}|' if hist else '') + f'{obs}|layer:{lt}|search:{"per_channel+0bit" if zero else ("per_channel" if spec["wtype"] == "channel" else "per_layer")}|{mpslib.prog_id(spec)}{direction}' + ('|selftest' if selftest else '')
            if any(v['key'] == key for v in res.violations):
                continue
            rec = {'spec': spec, 'wseed': wseed, 'alphas': alphas, 'observable': obs, 'layer': layer, 'key': key, 'summary': summ, 'train_hard': p.get('train_hard', False), 'hist': hist,
                   'what': f'{mpslib.prog_id(spec)}: {obs} {layer or ""}: cost/shown value {term if obs in costs else shown[layer][obs.split("_")[1]]} but exact {tot.get(obs) if obs in tot else per[layer]} at summary {summ}'[:600]}
            if selftest:
                res.violations.append(jsonable(rec))
                continue
            okr, msg = replay(jsonable(rec))
            if okr:
                rec['replay_msg'] = msg
                res.violations.append(jsonable(rec))
            else:
                res.errors.append(f'counterexample did not reproduce: {key}: {msg[:500]}')
    res.witnesses += 1
    res.witnesses_ok += 1 if ex.n_paths >= 2 else 0
    res.absorb(ex)
    return res
