"""C10 - what is evaluated, what is reported and what is exported are the same choice.

The real MPSPerLayerQtz / MPSPerChannelQtz / SuperNetCombiner sampling code (softmax with temperature, Gumbel softmax as
decomposed by torch, STEArgmax, one_hot) runs on symbolic coefficients alpha, a symbolic temperature in [0.05, 20] and
arbitrary Gumbel noise; exp / log are uninterpreted strictly increasing functions (exp positive), so what is proved holds for
the real ones.  Flags (hard / gumbel / disable_sampling / training) are enumerated.  A tiny MPS model adds the
evaluated-vs-summary-vs-exported comparison.
"""
import itertools
import time
from fractions import Fraction

import numpy as np
import torch
import torch.nn as nn
import z3

import symtorch as st
from symtorch import Explorer, SymMode, SymTensor
from vlib.harness import InstanceResult, jsonable

PROPERTY = 'C10'
TECHNIQUE = 'symbolic execution of the real sampling code with exp/log as uninterpreted monotone functions; probability-vector, one-hot-at-argmax and summary/export agreement as unsat queries on every argmax path'
FUNCTIONS_ENCODED = ['MPSBaseQtz.sample_alpha_sm/sample_alpha_gs/sample_alpha_none/update_softmax_options', 'MPSPerLayerQtz/MPSPerChannelQtz.__init__/forward', 'STEArgmax.forward',
                     'torch.nn.functional.softmax / gumbel_softmax / one_hot (as decomposed by torch)', 'SuperNetCombiner.sample_alpha_sm/sample_alpha_gs/best_layer_index/summary',
                     'MPSConv2d/MPSLinear.selected_*_precision/summary/export (model instance)']
BOUNDS = {'quick': 'per-layer alpha length 1..4, per-channel 2x2 and 3x2, combiner 2..4 branches; temperature symbolic in [0.05,20]; all flag combinations; one MPS model (Conv2d-ReLU-flatten-Linear, precisions (2,4,8)/(4,8)); whole MPS model with summary()/export() before the forward pass, per-layer and per-channel, coefficients written into an evaluated model, independent arg-max oracle on the raw coefficients; combiner re-sampled after its coefficients are updated (through .data / in place)',
          'thorough': 'per-layer length 1..8, per-channel up to 4x3 / 2x3, combiner 2..8 branches, option-update sequences of length 2 before the forward pass'}
OUTSIDE = ['per-channel matrices larger than the bound (the sampling code is column-wise independent; not proved here)', 'ties between coefficients (gap < 0.05)', 'float32 softmax underflow at temperature 0.05 with gaps > 4.4 (reals have no underflow)']
ASSUMPTIONS = ['pairwise gaps between competing coefficients >= 0.05 (no ties)', 'exp, log: arbitrary strictly increasing functions, exp > 0, exp(0) = 1, log(1) = 0', 'Gumbel noise: arbitrary reals (exponential_ stub returns arbitrary positives)']
INSTANCE_TIMEOUT_S = {'quick': 900, 'thorough': 3000}
Q = 120000
GAP = Fraction(1, 20)


def instances(tier, seed):
    out = []
    lens = [1, 2, 3, 4] if tier == 'quick' else [1, 2, 3, 4, 6, 8]
    mats = [(2, 2), (3, 2)] if tier == 'quick' else [(2, 2), (3, 2), (2, 3), (4, 3)]      # (3, 4) and (8, 2): the arg-max queries do not finish within 120 s each
    flags = list(itertools.product([False, True], [False, True], [False, True]))   # hard, gumbel, training
    for n in lens:
        for hard, gumbel, training in flags:
            if n > 4 and gumbel and hard:
                continue
            out.append({'id': f'layer:n={n}:hard={int(hard)}:gs={int(gumbel)}:train={int(training)}', 'what': 'qtz', 'shape': [n], 'hard': hard,
                        'gumbel': gumbel, 'training': training})
    for (P, C) in mats:
        for hard, gumbel, training in flags:
            if P * C > 6 and gumbel:
                if hard or not training:
                    continue
            out.append({'id': f'channel:{P}x{C}:hard={int(hard)}:gs={int(gumbel)}:train={int(training)}', 'what': 'qtz', 'shape': [P, C], 'hard': hard,
                        'gumbel': gumbel, 'training': training})
    for n in ([2, 3, 4] if tier == 'quick' else [2, 3, 4, 6, 8]):
        for hard, gumbel, training in flags:
            if n > 4 and gumbel and hard:
                continue
            out.append({'id': f'combiner:n={n}:hard={int(hard)}:gs={int(gumbel)}:train={int(training)}', 'what': 'combiner', 'n': n, 'hard': hard,
                        'gumbel': gumbel, 'training': training})
    # the coefficients are sampled once at earlier values, then updated (through .data / in place), then sampled again: the second sample obeys
    # the same clauses with respect to the NEW raw coefficients
    for n in ((2, 3) if tier == 'quick' else (2, 3, 4)):
        for hard, gumbel, training in flags:
            if (gumbel and training) or (not hard and not training):
                continue        # Gumbel noise: covered without history; soft eval-mode combiner: the recorded finding, covered without history
            for hist in ('data', 'nograd'):
                out.append({'id': f'combiner:n={n}:hard={int(hard)}:gs={int(gumbel)}:train={int(training)}:resampled_after_{hist}', 'what': 'combiner', 'n': n, 'hard': hard,
                            'gumbel': gumbel, 'training': training, 'hist': hist})
    out.append({'id': 'qtz_disable_sampling', 'what': 'disable'})
    out.append({'id': 'qtz_update_sequence', 'what': 'updates', 'deep': tier != 'quick'})
    out.append({'id': 'mps_model', 'what': 'model'})
    # summary() / export() asked BEFORE any forward pass at the current coefficients, per-layer and per-channel weight search, and coefficients
    # written into a model that has already been evaluated (the sampled buffers are stale until the next forward pass)
    for wt in ('layer', 'channel'):
        for order, hist in (('summary_first', None), ('summary_first', 'data'), ('fwd_first', 'data'), ('fwd_first', 'restored')):
            if wt == 'layer' and order == 'fwd_first' and hist != 'restored':
                continue
            if wt == 'channel' and hist == 'restored':
                continue
            out.append({'id': f'mps_model:{wt}:{order}' + (f':after_eval+{hist}' if hist else ''), 'what': 'model', 'wtype': wt, 'order': order, 'hist': hist})
    for hard, gumbel in ((True, False), (False, False), (True, True)) if tier == 'quick' else itertools.product([False, True], [False, True]):
        for wt in ('layer', 'channel'):
            out.append({'id': f'mps_model_options:{wt}:hard={int(hard)}:gs={int(gumbel)}', 'what': 'model_opts', 'hard': hard, 'gumbel': gumbel, 'wtype': wt})
    return out


# ---------------------------------------------------------------------------------------------------------------------
def _mk_qtz(shape, hard, gumbel, temperature=1.0, disable=False):
    from plinio.methods.mps.nn.qtz import MPSPerLayerQtz, MPSPerChannelQtz
    from plinio.methods.mps.quant.quantizers import PACTAct, MinMaxWeight
    precs = (2, 4, 8, 3, 5, 6, 7, 16)[:shape[0]]
    if len(shape) == 1:
        return MPSPerLayerQtz(precs, PACTAct, {}, temperature, hard, gumbel, disable)
    return MPSPerChannelQtz(precs, MinMaxWeight, {'cout': shape[1]}, temperature, hard, gumbel, disable)


def concrete_qtz(rec):
    """plain torch: returns theta (list) after one sampling"""
    torch.manual_seed(rec.get('rng', 0))
    q = _mk_qtz(rec['shape'], rec['hard'], rec['gumbel'], float(Fraction(rec['temperature'])))
    with torch.no_grad():
        q.alpha.copy_(torch.tensor([float(Fraction(v)) for v in rec['alpha']]).reshape(rec['shape']))
    q.train(rec['training'])
    for (opt, val) in rec.get('updates', []):
        q.update_softmax_options(**{opt: (float(Fraction(val)) if opt == 'temperature' else bool(val))})
    q.sample_alpha()
    return q.theta_alpha.detach().reshape(rec['shape']), q


def concrete_combiner(rec):
    from plinio.methods.supernet.nn.combiner import SuperNetCombiner
    torch.manual_seed(rec.get('rng', 0))
    c = SuperNetCombiner(rec['n'], rec['gumbel'], rec['hard'])
    c.softmax_temperature = float(Fraction(rec['temperature']))
    c.train(rec['training'])
    t = torch.tensor([float(Fraction(v)) for v in rec['alpha']])
    if rec.get('hist'):
        with torch.no_grad():
            c.alpha.copy_(_prior_alpha(rec['n']))
        c.sample_alpha()
    if rec.get('hist') == 'data':
        c.alpha.data.copy_(t)
    else:
        with torch.no_grad():
            c.alpha.copy_(t)
    c.sample_alpha()
    return c.theta_alpha.detach(), c


def _prior_alpha(n):
    """coefficients of the earlier sample: pairwise distinct, largest first"""
    return torch.tensor([float(n - i) / 2 for i in range(n)])


def _expect_onehot(hard, gumbel, training):
    return (not training) or (hard and not gumbel)


def replay(rec):
    obs = rec['observable']
    if rec['what_kind'] == 'model':
        return _replay_model(rec)
    if rec['what_kind'] == 'model_opts':
        theta, q = _replay_model_opts(rec)
        A = torch.tensor([float(Fraction(v)) for v in rec['alpha']]).reshape(rec['shape'])
        if theta.dim() == 1:
            theta, A = theta.reshape(-1, 1), A.reshape(-1, 1)
        am = [int(i) for i in torch.argmax(A, dim=0)]
    elif rec['what_kind'] == 'combiner':
        theta, c = concrete_combiner(rec)
        best = c.best_layer_index()
        theta = theta.reshape(-1, 1)
        am = [best]
    else:
        theta, q = concrete_qtz(rec)
        A = torch.tensor([float(Fraction(v)) for v in rec['alpha']]).reshape(rec['shape'])
        if theta.dim() == 1:
            theta = theta.reshape(-1, 1)
            A = A.reshape(-1, 1)
        am = [int(i) for i in torch.argmax(A, dim=0)]
    info = f'theta={theta.t().tolist()} argmax(alpha)={am}'
    tol = 1e-5
    if obs == 'negative':
        return bool((theta < -tol).any()), info
    if obs == 'sum':
        return bool(((theta.sum(dim=0) - 1).abs() > 1e-4).any()), info
    if obs in ('onehot', 'argmax'):
        for c_ in range(theta.shape[1]):
            col = theta[:, c_]
            is_oh = bool(((col - 1).abs() < tol).sum() == 1 and (col.abs() < tol).sum() == len(col) - 1)
            if obs == 'onehot' and not is_oh:
                return True, info
            if obs == 'argmax' and is_oh and int(torch.argmax(col)) != am[c_]:
                return True, info
        return False, info
    return False, 'unknown observable'


def _viol(res, rec, what, selftest=False):
    rec = jsonable(rec)
    rec['what'] = what
    if selftest:
        rec['key'] += '|selftest'
        res.violations.append(rec)
        return
    try:
        ok, msg = replay(rec)
    except Exception as e:
        ok, msg = False, f'replay raised {type(e).__name__}: {e}'
    rec['replay_msg'] = msg[:500]
    if ok:
        if not any(v['key'] == rec['key'] for v in res.violations):
            res.violations.append(rec)
    else:
        res.errors.append(f'counterexample did not reproduce: {what}: {msg[:500]}')


def _assume_gaps(ex, A):
    """pairwise gaps >= 0.05 inside each decision (column)"""
    A2 = A.reshape(A.shape[0], -1)
    for c in range(A2.shape[1]):
        col = list(A2[:, c])
        for i in range(len(col)):
            ex.assume(col[i] >= -4, col[i] <= 4)
            for j in range(i + 1, len(col)):
                ex.assume(z3.Or(col[i] - col[j] >= GAP, col[j] - col[i] >= GAP))


def _theta_obligations(ex, theta, A, expect_onehot, selftest=False):
    """-> list of (name, bad formula). theta, A: numpy object arrays (n,) or (P, C)"""
    T = theta.reshape(theta.shape[0], -1)
    A2 = A.reshape(A.shape[0], -1)
    P, C = T.shape
    obs = []
    obs.append(('negative', _or([st.e_lt(v, 0) for v in T.reshape(-1)])))
    obs.append(('sum', _or([st.e_ne(_sum(list(T[:, c])), 1 if not selftest else 2) for c in range(C)])))
    if expect_onehot:
        bad_oh, bad_am = [], []
        for c in range(C):
            col, acol = list(T[:, c]), list(A2[:, c])
            # one-hot: every entry is 0 or 1 (with sum == 1 this is exactly one 1)
            bad_oh.append(_or([_and([st.e_ne(v, 0), st.e_ne(v, 1)]) for v in col]))
            # located at the largest raw coefficient
            for i in range(P):
                for j in range(P):
                    if i != j:
                        bad_am.append(_and([st.e_eq(col[i], 1), st.e_gt(acol[j], acol[i])]))
        obs.append(('onehot', _or(bad_oh)))
        # one small query per decision (column) and candidate position: large disjunctions stall z3
        for c in range(C):
            col, acol = list(T[:, c]), list(A2[:, c])
            for i in range(P):
                others = _or([st.e_gt(acol[j], acol[i]) for j in range(P) if j != i])
                obs.append(('argmax', _and([st.e_eq(col[i], 1), others])))
    return obs


def _sum(xs):
    acc = Fraction(0)
    for x in xs:
        acc = st.e_add(acc, x)
    return acc


def _or(xs):
    xs = [x for x in xs if x is not False]
    if any(x is True for x in xs):
        return True
    if not xs:
        return False
    return z3.Or([st.lift(x, 'b') for x in xs]) if len(xs) > 1 else st.lift(xs[0], 'b')


def _and(xs):
    if any(x is False for x in xs):
        return False
    xs = [x for x in xs if x is not True]
    if not xs:
        return True
    return z3.And([st.lift(x, 'b') for x in xs]) if len(xs) > 1 else st.lift(xs[0], 'b')


def run_instance(p):
    res = InstanceResult(p['id'])
    selftest = p.get('selftest', False)
    {'qtz': _run_qtz, 'combiner': _run_combiner, 'disable': _run_disable, 'updates': _run_updates, 'model': _run_model, 'model_opts': _run_model_opts}[p['what']](res, p, selftest)
    return res


def _model_rec(ex, m, alpha, T, extra):
    rec = dict(extra)
    rec['alpha'] = [st.model_value(m, v) for v in alpha]
    rec['temperature'] = st.model_value(m, T)
    return rec


def _grid(ex, vars_, extra, den=64, bound=32):
    # prefer a moderate temperature and small coefficients: the float32 softmax of the replay then does not saturate
    T = z3.Real('T')
    nice = [T == 1] + [z3.And(v >= -1, v <= 1) for v in vars_ if str(v) != 'T']
    r, m = ex.check(*extra, *nice, *[c for i, v in enumerate(vars_) for c in (v * den == z3.ToReal(z3.Int(f'gridn!{i}')),)], timeout_ms=10000)
    if r == 'sat':
        return m
    cons = []
    for i, v in enumerate(vars_):
        iv = z3.Int(f'grid!{i}')
        cons += [v * den == z3.ToReal(iv), v >= -bound, v <= bound]
    r, m = ex.check(*extra, *cons, timeout_ms=10000)
    if r == 'sat':
        return m
    r, m = ex.check(*extra)
    return m if r == 'sat' else None


def _check_all(res, ex, obs, label, mk_rec, selftest, keybase):
    for name, bad in obs:
        if bad is False:
            res.oblige(True)
            continue
        r, m = ex.check(bad)
        if r == 'unknown':
            res.inconclusive.append(f'{label} {name}: unknown')
            continue
        res.oblige(r == 'unsat')
        if r == 'sat':
            rec = mk_rec(m, bad)
            rec['observable'] = name
            rec['key'] = f'{keybase}|{name}'
            _viol(res, rec, f'{label}: {name}', selftest)


def _run_qtz(res, p, selftest):
    shape, hard, gumbel, training = p['shape'], p['hard'], p['gumbel'], p['training']
    q = _mk_qtz(shape, hard, gumbel)
    q.train(training)

    def fn(ex):
        with SymMode():
            a = SymTensor.fresh('alpha', shape)
            T = z3.Real('T')
            ex.assume(T >= GAP, T <= 20)
            _assume_gaps(ex, st.to_arr(a))
            with st.swapped_params([(q, 'alpha', a), (q, 'temperature', SymTensor.from_array(np.array(T, dtype=object), torch.float32))]):
                old = q.theta_alpha
                q.sample_alpha()
                theta = st.to_arr(q.theta_alpha).copy()
                q.theta_alpha = old
        return a, T, theta
    ex = Explorer(timeout_ms=Q)
    kind = 'MPSPerLayerQtz' if len(shape) == 1 else 'MPSPerChannelQtz'
    n = 0
    for pc, (a, T, theta) in ex.explore(fn):
        n += 1
        obs = _theta_obligations(ex, theta, st.to_arr(a), _expect_onehot(hard, gumbel, training), selftest)

        def mk_rec(m, bad):
            m2 = _grid(ex, a.elems() + [T], [bad]) or m
            return _model_rec(ex, m2, a.elems(), T, {'what_kind': 'qtz', 'shape': shape, 'hard': hard, 'gumbel': gumbel, 'training': training})
        _check_all(res, ex, obs, p['id'], mk_rec, selftest, f'{kind}|hard={int(hard)}|gs={int(gumbel)}|train={int(training)}')
        if n <= 2 and not (gumbel and training):
            m = _grid(ex, a.elems() + [T], [])
            if m is not None:
                rec = _model_rec(ex, m, a.elems(), T, {'what_kind': 'qtz', 'shape': shape, 'hard': hard, 'gumbel': gumbel, 'training': training})
                th, _q = concrete_qtz(jsonable(rec))
                if _expect_onehot(hard, gumbel, training):
                    got = [float(st.model_value(m, v)) for v in theta.reshape(-1)]
                    res.sample({'kind': kind, 'alpha': rec['alpha'], 'T': rec['temperature'], 'theta': got})
                    if got == [float(v) for v in th.reshape(-1)]:
                        res.validated += 1
                    else:
                        res.errors.append(f'concolic mismatch {p["id"]}: engine {got} torch {th.reshape(-1).tolist()} alpha={rec["alpha"]}')
                else:
                    res.sample({'kind': kind, 'alpha': rec['alpha'], 'T': rec['temperature'], 'theta(torch)': th.reshape(-1).tolist()})
                    res.validated += 1 if abs(float(th.sum()) - (1 if len(shape) == 1 else shape[1])) < 1e-4 else 0
    res.witnesses += 1
    res.witnesses_ok += 1 if ex.n_paths >= 1 else 0
    res.absorb(ex)


def _run_combiner(res, p, selftest):
    from plinio.methods.supernet.nn.combiner import SuperNetCombiner
    n, hard, gumbel, training = p['n'], p['hard'], p['gumbel'], p['training']
    c0 = SuperNetCombiner(n, gumbel, hard)
    c0.train(training)
    hist = p.get('hist')

    def fn(ex):
        c = c0
        if hist:
            # a combiner of its own per path (built natively, outside the dispatch mode): the history re-binds attributes of the module
            c = SuperNetCombiner(n, gumbel, hard)
            c.train(training)
        with SymMode():
            a = SymTensor.fresh('alpha', (n,))
            T = z3.Real('T')
            ex.assume(T >= GAP, T <= 20)
            _assume_gaps(ex, st.to_arr(a))

            def prefix():
                c.softmax_temperature = st.SymScalar(T)
                with torch.no_grad():
                    c.alpha.copy_(_prior_alpha(n))
                c.sample_alpha()
            with (st.written_params([(c, 'alpha', a)], prefix, hist) if hist else st.swapped_params([(c, 'alpha', a)])):
                c.softmax_temperature = st.SymScalar(T)
                c.sample_alpha()
                theta = st.to_arr(c.theta_alpha).copy()
                best = c.best_layer_index()
                c.softmax_temperature = 1
                if not hist:
                    c.theta_alpha = c.alpha
        return a, T, theta, best
    ex = Explorer(timeout_ms=Q)
    k = 0
    for pc, (a, T, theta, best) in ex.explore(fn):
        k += 1
        obs = _theta_obligations(ex, theta, st.to_arr(a), _expect_onehot(hard, gumbel, training), selftest)
        # what export materialises (best_layer_index) is the arg-max of the raw coefficients
        A = a.elems()
        obs.append(('best_index', _or([st.e_gt(A[j], A[best]) for j in range(n) if j != best])))

        def mk_rec(m, bad):
            m2 = _grid(ex, A + [T], [bad]) or m
            return _model_rec(ex, m2, A, T, {'what_kind': 'combiner', 'n': n, 'hard': hard, 'gumbel': gumbel, 'training': training, 'hist': hist})
        _check_all(res, ex, obs, p['id'], mk_rec, selftest, f'SuperNetCombiner|hard={int(hard)}|gs={int(gumbel)}|train={int(training)}' + (f'|resampled_after_{hist}' if hist else ''))
        if k <= 2 and not (gumbel and training):
            m = _grid(ex, A + [T], [])
            if m is not None:
                rec = _model_rec(ex, m, A, T, {'what_kind': 'combiner', 'n': n, 'hard': hard, 'gumbel': gumbel, 'training': training, 'hist': hist})
                th, _c = concrete_combiner(jsonable(rec))
                res.sample({'kind': 'SuperNetCombiner', 'alpha': rec['alpha'], 'T': rec['temperature'], 'theta(torch)': th.tolist(), 'best': best})
                if _c.best_layer_index() == best:
                    res.validated += 1
                else:
                    res.errors.append(f'concolic mismatch combiner best index: engine {best} torch {_c.best_layer_index()}')
    res.witnesses += 1
    res.witnesses_ok += 1 if ex.n_paths >= 1 else 0
    res.absorb(ex)


def _run_disable(res, p, selftest):
    """disable_sampling: a forward pass leaves the stored coefficients untouched (they keep being a probability vector)"""
    for shape in ([3], [2, 2]):
        q = _mk_qtz(shape, False, False, 1.0, disable=True)

        def fn(ex):
            with SymMode():
                a = SymTensor.fresh('alpha', shape)
                th0 = SymTensor.fresh('theta0', shape)
                with st.swapped_params([(q, 'alpha', a), (q, 'theta_alpha', th0)]):
                    q.sample_alpha()
                    theta = st.to_arr(q.theta_alpha).copy()
            return th0, theta
        ex = Explorer(timeout_ms=Q)
        for pc, (th0, theta) in ex.explore(fn):
            bad = _or([st.e_ne(u, v) for u, v in zip(th0.elems(), theta.reshape(-1))])
            if selftest:
                bad = True
            if bad is False:
                res.oblige(True)
            else:
                r, m = ex.must(bad)
                res.oblige(r == 'unsat')
                if r == 'sat':
                    res.violations.append({'key': 'disable_sampling|theta_changed' + ('|selftest' if selftest else ''), 'what': 'sample_alpha_none changed theta_alpha'})
        res.absorb(ex)
        res.paths += 0
    res.sample({'disable_sampling': 'theta_alpha unchanged by sample_alpha for shapes [3], [2,2]'})


def _run_updates(res, p, selftest):
    """option updates before the forward pass: the sampled coefficients obey the options the user set last"""
    seqs = [[('hard', True)], [('hard', False)], [('temperature', 'T')], [('hard', True), ('temperature', 'T')], [('temperature', 'T'), ('hard', True)],
            # an option switched on and off again: the last setting counts
            [('gumbel', True), ('gumbel', False), ('hard', True)], [('hard', True), ('hard', False)]]
    if p.get('deep'):
        seqs += [[('gumbel', True)], [('gumbel', True), ('hard', True)], [('hard', True), ('gumbel', True)]]
    for shape in ([3], [2, 2]):
        for training in (True, False):
            for seq in seqs:
                q = _mk_qtz(shape, False, False)
                q.train(training)

                def fn(ex):
                    with SymMode():
                        a = SymTensor.fresh('alpha', shape)
                        T = z3.Real('T')
                        ex.assume(T >= GAP, T <= 20)
                        _assume_gaps(ex, st.to_arr(a))
                        with st.swapped_params([(q, 'alpha', a)]):
                            old_t, old_th = q.temperature, q.theta_alpha
                            for opt, val in seq:
                                q.update_softmax_options(**{opt: (SymTensor.from_array(np.array(T, dtype=object), torch.float32) if val == 'T' else val)})
                            q.sample_alpha()
                            theta = st.to_arr(q.theta_alpha).copy()
                            q.temperature, q.theta_alpha = old_t, old_th
                            q.update_softmax_options(hard=False, gumbel=False)
                    return a, T, theta
                hard = [v for o, v in seq if o == 'hard'][-1] if any(o == 'hard' for o, v in seq) else False
                gumbel = [v for o, v in seq if o == 'gumbel'][-1] if any(o == 'gumbel' for o, v in seq) else False
                ex = Explorer(timeout_ms=Q)
                for pc, (a, T, theta) in ex.explore(fn):
                    # whichever sampler is active, the result is a probability vector; one-hot at the arg-max when the user asked for
                    # hard sampling without Gumbel noise, or in eval mode
                    obs = _theta_obligations(ex, theta, st.to_arr(a), _expect_onehot(hard, gumbel, training), selftest)

                    def mk_rec(m, bad):
                        m2 = _grid(ex, a.elems() + [T], [bad]) or m
                        r = _model_rec(ex, m2, a.elems(), T, {'what_kind': 'qtz', 'shape': shape, 'hard': False, 'gumbel': False, 'training': training})
                        r['updates'] = [(o, (r['temperature'] if v == 'T' else v)) for o, v in seq]
                        r['temperature'] = 1
                        return r
                    _check_all(res, ex, obs, f'updates {seq} train={training}', mk_rec, selftest, f'updates|{"+".join(o for o, v in seq)}|train={int(training)}')
                res.absorb(ex)
    res.sample({'update sequences': [str(s) for s in seqs]})


# ---------------------------------------------------------------------------------------------------------------------
class _Net(nn.Module):
    def __init__(self):
        super().__init__()
        self.c0 = nn.Conv2d(1, 2, 2)
        self.fc = nn.Linear(2 * 2 * 2, 2)

    def forward(self, x):
        return self.fc(torch.relu(self.c0(x)).flatten(1))


def _mk_model(wtype='layer', wprec=(2, 4, 8)):
    from plinio.methods import MPS
    from plinio.methods.mps import get_default_qinfo, MPSType
    torch.manual_seed(0)
    net = _Net()
    m = MPS(net, input_shape=(1, 3, 3), qinfo=get_default_qinfo(tuple(wprec), (4, 8)),
            w_search_type=MPSType.PER_LAYER if wtype == 'layer' else MPSType.PER_CHANNEL)
    return m.eval()


def _qtzs(m):
    from plinio.methods.mps.nn.qtz import MPSBaseQtz
    out, seen = [], set()
    for name, mod in m.named_modules():
        if isinstance(mod, MPSBaseQtz) and id(mod) not in seen and 'alpha' in mod._parameters and mod.alpha.numel() > 1:
            seen.add(id(mod))
            out.append((name, mod))
    return out


def _exported_precisions(e):
    out = {}
    for name, mod in e.named_modules():
        d = {}
        for attr, key in (('in_quantizer', 'in'), ('out_quantizer', 'out'), ('w_quantizer', 'w')):
            q = getattr(mod, attr, None)
            if q is not None and hasattr(q, 'precision'):
                d[key] = int(q.precision)
        if d and '.' not in name:
            out[name] = d
    return out


def _model_observe(m, x, order='fwd_first'):
    """evaluated (theta one-hot index), reported (summary) and exported precisions"""
    if order == 'summary_first':
        summ0 = {k: dict(v) for k, v in m.summary().items()}
        exp0 = _exported_precisions(m.export())
    m(x)
    ev = {}
    for name, q in _qtzs(m):
        th = q.theta_alpha
        idx = [int(i) for i in torch.argmax(th, dim=0).reshape(-1)] if th.dim() > 1 else [int(torch.argmax(th))]
        ev[name] = [int(q.precision[i]) for i in idx]
        # eval mode: the sampled coefficients of every decision are a one-hot (entries 0/1, exactly one 1 per decision)
        cols = st.to_arr(th).reshape(th.shape[0], -1)
        for c_ in range(cols.shape[1]):
            col = [v for v in cols[:, c_]]
            if all(not st.is_sym(v) for v in col) and sorted(float(v) for v in col) != [0.0] * (len(col) - 1) + [1.0]:
                ev[name + '!not_onehot'] = [float(v) for v in col]
    if order == 'summary_first':
        return ev, summ0, exp0
    summ = m.summary()
    e = m.export()
    return ev, {k: dict(v) for k, v in summ.items()}, _exported_precisions(e)


_ROLE = {'out_mps_quantizer': 'out_precision', 'w_mps_quantizer': 'w_precision', 'in_mps_quantizer': 'in_precision'}


def _reported(qname, summ):
    """what summary() says about the decision taken by quantizer `qname` (None if it does not say)"""
    parts = qname.split('.')
    lname = '.'.join(parts[:-1])
    lname = lname[5:] if lname.startswith('seed.') else lname
    sk = _ROLE.get(parts[-1])
    s = summ.get(lname)
    if sk is None or s is None or sk not in s:
        return None
    return s[sk]


def _not_argmax(sy, qs, summ):
    """formula: some decision reported by summary() is not the strict arg-max of the raw coefficients (independent of the sampling code)"""
    bad = []
    byname = dict(qs)
    for qname, a in sy.items():
        rep = _reported(qname, summ)
        if rep is None:
            continue
        precs = [int(v) for v in byname[qname].precision]
        A = st.to_arr(a).reshape(len(precs), -1)
        reps = list(rep) if isinstance(rep, (list, tuple)) else [rep] * A.shape[1]
        if len(reps) != A.shape[1]:
            return True
        for c, pr in enumerate(reps):
            if int(pr) not in precs:
                return True
            i = precs.index(int(pr))
            bad += [st.e_ge(A[j, c], A[i, c]) for j in range(len(precs)) if j != i]
    return _or(bad)


def _not_argmax_concrete(alphas, qs, summ):
    byname = dict(qs)
    for qname, vals in alphas.items():
        rep = _reported(qname, summ)
        if rep is None:
            continue
        precs = [int(v) for v in byname[qname].precision]
        A = np.array([float(Fraction(v)) for v in vals]).reshape(len(precs), -1)
        reps = list(rep) if isinstance(rep, (list, tuple)) else [rep] * A.shape[1]
        want = [precs[int(i)] for i in A.argmax(axis=0)]
        if [int(v) for v in reps] != want:
            return f'summary() reports {reps} for {qname} but the arg-max of the raw coefficients is {want}'
    return None


def _consistent(ev, summ, exp):
    """returns None or a description of the disagreement"""
    for k_, v_ in ev.items():
        if k_.endswith('!not_onehot'):
            return f'eval-mode coefficients of {k_[:-11]} are not a one-hot: {v_}'
    for lname, s in summ.items():
        for key, sk in (('in', 'in_precision'), ('out', 'out_precision'), ('w', 'w_precision')):
            if lname in exp and key in exp[lname] and sk in s and isinstance(s[sk], int):
                if exp[lname][key] != s[sk]:
                    return f'exported {lname}.{key}={exp[lname][key]} but summary says {s[sk]}'
        for qname, precs in ev.items():
            if qname.startswith('seed.' + lname + '.') or qname.startswith(lname + '.'):
                role = qname.split('.')[-1]
                sk = {'out_mps_quantizer': 'out_precision', 'w_mps_quantizer': 'w_precision', 'in_mps_quantizer': 'in_precision'}.get(role)
                if sk and sk in s and isinstance(s[sk], int) and len(precs) == 1 and precs[0] != s[sk]:
                    return f'evaluated {qname} uses {precs[0]} bits but summary says {s[sk]}'
    return None


def _soft_checkpoint(wtype, wprec):
    """state_dict of a twin model saved in training mode after a forward pass (soft sampled coefficients in the theta_alpha buffers)"""
    twin = _mk_model(wtype, wprec)
    twin.train()
    with torch.no_grad():
        twin(torch.zeros(1, 1, 3, 3))
    return {k: v.clone() for k, v in twin.state_dict().items()}


def _replay_model(rec):
    m = _mk_model(rec.get('wtype', 'layer'), rec.get('wprec', (2, 4, 8)))
    byname = dict(_qtzs(m))
    if rec.get('hist'):
        with torch.no_grad():
            m(torch.zeros(1, 1, 3, 3))
        if rec.get('hist') == 'restored':
            # a checkpoint saved in training mode is loaded into the (already evaluated) model before the coefficients move on
            m.load_state_dict(_soft_checkpoint(rec.get('wtype', 'layer'), rec.get('wprec', (2, 4, 8))))
    with torch.no_grad():
        for name, vals in rec['alphas'].items():
            t = torch.tensor([float(Fraction(v)) for v in vals]).reshape(byname[name].alpha.shape)
            if rec.get('hist') in ('data', 'restored'):
                byname[name].alpha.data.copy_(t)
            else:
                byname[name].alpha.copy_(t)
    ev, summ, exp = _model_observe(m, torch.rand(1, 1, 3, 3), rec.get('order', 'fwd_first'))
    bad = _consistent(ev, summ, exp) or _not_argmax_concrete(rec['alphas'], _qtzs(m), summ)
    return bad is not None, f'{bad}; evaluated={ev} summary={summ} exported={exp}'


def _run_model(res, p, selftest):
    wtype, order, hist = p.get('wtype', 'layer'), p.get('order', 'fwd_first'), p.get('hist')
    wprec = (2, 4, 8) if wtype == 'layer' else (2, 8)
    m = _mk_model(wtype, wprec)
    qs = _qtzs(m)

    soft_sd = _soft_checkpoint(wtype, wprec) if hist == 'restored' else None       # built natively, outside the dispatch mode

    def prefix():
        with torch.no_grad():
            m(torch.zeros(1, 1, 3, 3))
        if hist == 'restored':
            m.load_state_dict(soft_sd)

    def fn(ex):
        with SymMode():
            pairs, sy = [], {}
            for name, q in qs:
                a = SymTensor.fresh(name.replace('.', '_'), tuple(q.alpha.shape))
                _assume_gaps(ex, st.to_arr(a))
                pairs.append((q, 'alpha', a))
                sy[name] = a
            saved = [(q, q.theta_alpha) for _, q in qs]
            try:
                with (st.written_params(pairs, prefix, 'data' if hist == 'restored' else hist) if hist else st.swapped_params(pairs)):
                    ev, summ, exp = _model_observe(m, torch.zeros(1, 1, 3, 3), order)
            finally:
                for q, th in saved:
                    q.theta_alpha = th
        return sy, ev, summ, exp
    ex = Explorer(timeout_ms=Q)
    k = 0
    for pc, (sy, ev, summ, exp) in ex.explore(fn):
        k += 1
        bad = _consistent(ev, summ, exp)
        extra = []
        if bad is None:
            # the reported decision is the strict arg-max of the raw coefficients, for every value of the coefficients on this path
            f = _not_argmax(sy, qs, summ)
            if f is True:
                bad = 'summary() reports a precision that is not among the candidates'
            elif f is not False:
                r, mcex = ex.check(f)
                if r == 'unknown':
                    res.inconclusive.append(f'mps_model path {k}: arg-max query unknown')
                elif r == 'sat':
                    bad = 'summary() reports a decision that is not the arg-max of the raw coefficients'
                    extra = [f]
        if selftest and k == 1:
            bad = 'seeded'
        res.oblige(bad is None)
        allv = [v for a in sy.values() for v in a.elems()]
        mm = _grid(ex, allv, extra)
        alphas = {n: [st.model_value(mm, v) for v in a.elems()] for n, a in sy.items()}
        rec = {'what_kind': 'model', 'alphas': alphas, 'wtype': wtype, 'wprec': list(wprec), 'order': order, 'hist': hist}
        if k <= 3:
            res.sample({'alphas': alphas, 'evaluated': ev, 'summary': summ, 'exported': exp})
        if bad is None:
            okr, msg = _replay_model(jsonable(rec))
            if not okr:
                res.validated += 1
            else:
                res.errors.append(f'concolic mismatch on MPS model: engine consistent, torch: {msg[:300]}')
        else:
            rec['observable'] = 'model'
            rec['key'] = 'mps_model|evaluated-vs-summary-vs-exported' + ('' if (wtype, order, hist) == ('layer', 'fwd_first', None) else f'|{wtype}|{order}|{hist}')
            _viol(res, rec, f'MPS model: {bad}', selftest)
    res.witnesses += 1
    res.witnesses_ok += 1 if ex.n_paths > 1 else 0
    res.absorb(ex)


# ---------------------------------------------------------------------------------------------------------------------
def _replay_model_opts(rec):
    m = _mk_model(rec['wtype'])
    m.train()
    m.update_softmax_options(hard=rec['hard'], gumbel=rec['gumbel'])
    q = dict(_qtzs(m))[rec['qtz']]
    shape = list(q.alpha.shape)
    with torch.no_grad():
        q.alpha.copy_(torch.tensor([float(Fraction(v)) for v in rec['alpha']]).reshape(shape))
    torch.manual_seed(rec.get('rng', 0))
    q.sample_alpha()
    return q.theta_alpha.detach().reshape(shape), q


def _run_model_opts(res, p, selftest):
    """options set on the MPS model (training mode) reach every selector of every layer: the coefficients each selector
    samples afterwards obey them"""
    hard, gumbel, wtype = p['hard'], p['gumbel'], p['wtype']
    m = _mk_model(wtype)
    m.train()
    m.update_softmax_options(hard=hard, gumbel=gumbel)
    for name, q in _qtzs(m):
        shape = list(q.alpha.shape)

        def fn(ex):
            with SymMode():
                a = SymTensor.fresh('alpha', shape)
                _assume_gaps(ex, st.to_arr(a))
                with st.swapped_params([(q, 'alpha', a)]):
                    old_th = q.theta_alpha
                    q.sample_alpha()
                    theta = st.to_arr(q.theta_alpha).copy()
                    q.theta_alpha = old_th
            return a, theta
        ex = Explorer(timeout_ms=Q)
        for pc, (a, theta) in ex.explore(fn):
            obs = _theta_obligations(ex, theta, st.to_arr(a), _expect_onehot(hard, gumbel, True), selftest)

            def mk_rec(mm, bad):
                m2 = _grid(ex, a.elems(), [bad]) or mm
                return {'what_kind': 'model_opts', 'qtz': name, 'wtype': wtype, 'shape': shape, 'hard': hard, 'gumbel': gumbel, 'training': True,
                        'alpha': [st.model_value(m2, v) for v in a.elems()], 'temperature': 1}
            _check_all(res, ex, obs, f'MPS.update_softmax_options(hard={hard}, gumbel={gumbel}) -> {name}', mk_rec, selftest,
                       f'model_options|{name.split(".")[-1]}|{type(q).__name__}|hard={int(hard)}|gs={int(gumbel)}')
        res.absorb(ex)
    res.sample({'selectors': [n for n, _ in _qtzs(m)], 'hard': hard, 'gumbel': gumbel})
