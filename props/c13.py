"""C13 - quantizers emit values that fit their declared bit-width and scale.

The real MinMaxWeight, PACTAct and QuantizerBias modules (and their autograd functions) run on symbolic tensors:
  real semantics  - weights w in R^{C x n}, activations x, clip value, bias b and scales are z3 reals;
  float32 semantics - the PACT kernel on bit-precise z3 Float32 terms (every float32 x, clip in range).
Each clause of the property is an unsat query.
"""
import itertools
import math
import time
from fractions import Fraction

import numpy as np
import torch
import torch.nn as nn
import z3

import symtorch as st
from symtorch import Explorer, SymMode, SymTensor
from vlib.harness import InstanceResult, jsonable

PROPERTY = 'C13'
TECHNIQUE = 'symbolic execution of the real quantizer modules on z3-real tensors (all clauses as unsat queries) + bit-precise z3 Float32 execution of the PACT kernel'
FUNCTIONS_ENCODED = ['MinMaxWeight.forward/scale/_compute_min_max_sym', 'MinMaxSymSTE.forward', '_min_max_quantize', 'PACTAct.forward/scale',
                     'PACTActSTE.forward', 'QuantizerBias.forward/scale', 'QuantizeBiasSTE.forward', 'RoundSTE.forward']
BOUNDS = {'quick': 'weights C x n in {1x1, 1x3, 2x2}, bits {0,2,3,8}; PACT bits {2,3,8}, clip symbolic in [0.05,1000] (grid {0.05,0.5,6,1000} when NRA stalls), x arbitrary real; bias: 2 channels, scales >= 0 incl. 0 and the isclose band; FP32: PACT bits {2,8}, all float32 x with |x| <= 2^13, clip in [0.05,1000]; weight quantizer observed after an earlier call on the same nn.Parameter that was then updated through .data / in place (1x2, bits {2,8})',
          'thorough': 'weights up to 2x3, bits {0,2,...,8}; PACT bits 2..8; FP32 PACT bits {2,3,4,8}; range and negative-to-zero for every float32 clip in [0.05,1000]; monotonicity for the clipping thresholds {0.05, 0.3, 1, 3.3, 6, 1000} (a symbolic threshold is not decided by z3 within 240 s)'}
OUTSIDE = ['float32 round-off inside MinMaxWeight / QuantizerBias (real semantics there)', 'denormal weights, clip values comparable to the 1e-3 stabiliser (< 0.05)',
           'asymmetric weight quantisation, PACTActSigned, FQ weights']
ASSUMPTIONS = ['symmetric weights', 'clip in [0.05, 1000]', 'the PACT "fake-quantised = integer x reported scale" clause holds up to the documented 1e-3 stabiliser (PACTAct.scale omits it by design)',
               'monotonicity of the weight quantiser is per channel for a fixed channel range (the scale depends on the channel maximum)']
INSTANCE_TIMEOUT_S = {'quick': 1200, 'thorough': 3600}
Q = 30000


def instances(tier, seed):
    out = []
    shapes = [(1, 1), (1, 3), (2, 2)] if tier == 'quick' else [(1, 1), (1, 2), (1, 3), (2, 2), (2, 3)]
    wbits = [0, 2, 3, 8] if tier == 'quick' else [0, 2, 3, 4, 5, 6, 7, 8]
    for sh in shapes:
        for b in wbits:
            out.append({'id': f'weight:{sh[0]}x{sh[1]}:b{b}', 'what': 'weight', 'shape': list(sh), 'bits': b})
    # the quantizer is a function of the CURRENT value of the tensor it is given: the weight is an nn.Parameter that was quantized once and then
    # updated (through .data, as checkpoint loaders and some optimizers do / in place under no_grad / by rebinding .data) before the observed call
    for hist in ('data_copy', 'nograd_copy'):
        for b in ([2, 8] if tier == 'quick' else [2, 3, 4, 8]):
            out.append({'id': f'weight:1x2:b{b}:after_{hist}', 'what': 'weight', 'shape': [1, 2], 'bits': b, 'hist': hist})
    for b in ([2, 3, 8] if tier == 'quick' else [2, 3, 4, 5, 6, 7, 8]):
        out.append({'id': f'pact:b{b}', 'what': 'pact', 'bits': b})
    for b, b0 in ([(2, 8), (8, 4)] if tier == 'quick' else [(2, 8), (3, 8), (4, 2), (8, 4)]):
        out.append({'id': f'pact:b{b}:set_from_b{b0}', 'what': 'pact', 'bits': b, 'b0': b0})
    for b in ([8, 32] if tier == 'quick' else [8, 16, 32]):
        out.append({'id': f'bias:b{b}', 'what': 'bias', 'bits': b})
    for b in ([2, 8] if tier == 'quick' else [2, 3, 4, 8]):
        out.append({'id': f'pact_fp32:b{b}', 'what': 'pact_fp32', 'bits': b, 'deep': tier != 'quick'})
    return out


# ---------------------------------------------------------------------------------------------------------------------
# plain torch re-execution
# ---------------------------------------------------------------------------------------------------------------------
def _f(v):
    return float(Fraction(v)) if not isinstance(v, float) else v


def concrete_weight(shape, bits, w, hist=None, w0=None):
    from plinio.methods.mps.quant.quantizers import MinMaxWeight
    q = MinMaxWeight(bits, cout=shape[0])
    W = torch.tensor([_f(v) for v in w], dtype=torch.float32).reshape(shape)
    if hist:
        P = nn.Parameter(torch.tensor([_f(v) for v in w0], dtype=torch.float32).reshape(shape))
        q(P)
        if hist == 'data_copy':
            P.data.copy_(W)
        else:
            with torch.no_grad():
                P.copy_(W)
        W = P
    q.dequantize = False
    qi = q(W)
    q.dequantize = True
    fq = q(W)
    return W, qi, fq, q.scale


def concrete_pact(bits, clip, xs, b0=None):
    from plinio.methods.mps.quant.quantizers import PACTAct
    q = PACTAct(b0 or bits, init_clip_val=_f(clip))
    if b0:
        q.precision = bits
    X = torch.tensor([_f(v) for v in xs], dtype=torch.float32)
    q.dequantize = False
    qi = q(X)
    q.dequantize = True
    fq = q(X)
    return X, qi, fq, q.scale


def concrete_bias(bits, b, s_a, s_w):
    from plinio.methods.mps.quant.quantizers import QuantizerBias
    q = QuantizerBias(bits, cout=len(b))
    B = torch.tensor([_f(v) for v in b], dtype=torch.float32)
    SA = torch.tensor(_f(s_a), dtype=torch.float32)
    SW = torch.tensor([_f(v) for v in s_w], dtype=torch.float32)
    q.dequantize = False
    qi = q(B, SA, SW)
    q.dequantize = True
    fq = q(B, SA, SW)
    return B, qi, fq, SA * SW


def replay(rec):
    obs = rec['observable']
    tol = 1e-4
    if rec['qkind'] == 'weight':
        W, qi, fq, scale = concrete_weight(rec['shape'], rec['bits'], rec['w'], rec.get('hist'), rec.get('w0'))
        W, qi, fq, scale = W.detach(), qi.detach(), fq.detach(), scale.detach()
        b = rec['bits']
        flat = lambda t: [float(v) for v in t.reshape(-1)]
        info = f'w={flat(W)} int={flat(qi)} fq={flat(fq)} scale={flat(scale)}'
        if obs == 'nonfinite':
            return (not all(math.isfinite(v) for v in flat(qi) + flat(fq))), info
        if not all(math.isfinite(v) for v in flat(qi) + flat(fq)):
            return True, 'non-finite output: ' + info
        if obs == 'range':
            lo, hi = (-2 ** (b - 1), 2 ** (b - 1) - 1) if b > 0 else (0, 0)
            return any(v < lo or v > hi or v != round(v) for v in flat(qi)), info
        if obs == 'zero_bits':
            return any(v != 0 for v in flat(qi) + flat(fq)), info
        if obs == 'mono':
            n = rec['shape'][1]
            for c in range(rec['shape'][0]):
                for i in range(n):
                    for j in range(n):
                        if W[c, i] <= W[c, j] and qi[c, i] > qi[c, j]:
                            return True, info
            return False, info
        if obs == 'dequant':
            want = qi * scale.view(-1, 1)
            return bool(((fq - want).abs() > tol * (1 + want.abs())).any()), info
        if obs == 'error':
            return bool(((fq - W).abs() >= scale.view(-1, 1) * (1 + tol)).any()), info
    if rec['qkind'] == 'pact':
        X, qi, fq, scale = concrete_pact(rec['bits'], rec['clip'], rec['x'], rec.get('b0'))
        b, clip = rec['bits'], _f(rec['clip'])
        flat = lambda t: [float(v) for v in t.reshape(-1)]
        info = f'x={flat(X)} clip={clip} int={flat(qi)} fq={flat(fq)} scale={float(scale)}'
        if not all(math.isfinite(v) for v in flat(qi) + flat(fq)):
            return True, 'non-finite output: ' + info
        if obs == 'range':
            return any(v < 0 or v > 2 ** b - 1 or v != round(v) for v in flat(qi)), info
        if obs == 'neg_to_zero':
            return any(x <= 0 and v != 0 for x, v in zip(flat(X), flat(qi))), info
        if obs == 'top_level':
            tops = [v for x, v in zip(flat(X), flat(qi)) if x >= clip]
            return len(set(tops)) > 1, info
        if obs == 'mono':
            xs, qs = flat(X), flat(qi)
            return any(xs[i] <= xs[j] and qs[i] > qs[j] for i in range(len(xs)) for j in range(len(xs))), info
        if obs == 'dequant':
            used = (clip + 1e-3) / (2 ** b - 1)
            return any(abs(f_ - q_ * float(scale)) > 1e-3 * q_ / (2 ** b - 1) + tol * (1 + abs(f_)) for f_, q_ in zip(flat(fq), flat(qi))), info
        if obs == 'truncate':
            return any(x >= 0 and f_ > x * (1 + tol) + 1e-7 for x, f_ in zip(flat(X), flat(fq))), info
        if obs == 'error':
            step = (clip + 1e-3) / (2 ** b - 1)
            return any(0 <= x <= clip and x - f_ >= step * (1 + tol) for x, f_ in zip(flat(X), flat(fq))), info
    if rec['qkind'] == 'bias':
        B, qi, fq, s = concrete_bias(rec['bits'], rec['b'], rec['s_a'], rec['s_w'])
        flat = lambda t: [float(v) for v in t.reshape(-1)]
        info = f'b={flat(B)} s={flat(s)} int={flat(qi)} fq={flat(fq)}'
        if obs == 'nonfinite':
            return (not all(math.isfinite(v) for v in flat(qi) + flat(fq))), info
        if not all(math.isfinite(v) for v in flat(qi) + flat(fq)):
            return True, 'non-finite output: ' + info
        if obs == 'integral':
            return any(abs(v - round(v)) > 0 for v in flat(qi)), info
        if obs == 'multiple':
            return any(abs(f_ - q_ * s_) > tol * (1 + abs(f_)) for f_, q_, s_ in zip(flat(fq), flat(qi), flat(s))), info
        if obs == 'zero_scale':
            return any(s_ == 0 and (q_ != 0 or f_ != 0) for s_, q_, f_ in zip(flat(s), flat(qi), flat(fq))), info
        if obs == 'mono':
            return bool(qi[0] > qi[1]) and bool(B[0] <= B[1]), info
        if obs == 'error':
            return any(s_ > 1e-6 and abs(f_ - b_) > s_ * (0.5 + tol) for s_, f_, b_ in zip(flat(s), flat(fq), flat(B))), info
    return False, f'unknown observable {obs}'


def _viol(res, rec, what, selftest=False):
    rec = jsonable(rec)
    rec['what'] = what
    if selftest:
        rec['key'] += '|selftest'
        res.violations.append(rec)
        return
    try:
        ok, msg = replay(rec)
    except Exception as e:
        ok, msg = False, f'replay raised {type(e).__name__}: {e}'
    rec['replay_msg'] = msg[:600]
    if ok:
        if not any(v['key'] == rec['key'] for v in res.violations):
            res.violations.append(rec)
    else:
        res.errors.append(f'counterexample did not reproduce: {what}: {msg[:600]}')


def run_instance(p):
    st.core.FLOOR_LEMMAS = True
    res = InstanceResult(p['id'])
    selftest = p.get('selftest', False)
    {'weight': _run_weight, 'pact': _run_pact, 'bias': _run_bias, 'pact_fp32': _run_pact_fp32}[p['what']](res, p, selftest)
    return res


def _grid_model(ex, vars_, extra, den=64, bound=64):
    """prefer a float32-exact model (multiples of 1/den) so that the plain-torch replay sees the same values"""
    cons = []
    for i, v in enumerate(vars_):
        iv = z3.Int(f'grid!{i}')
        cons += [v * den == z3.ToReal(iv), v >= -bound, v <= bound]
    r, m = ex.check(*extra, *cons, timeout_ms=15000)
    if r == 'sat':
        return m
    r, m = ex.check(*extra)
    return m if r == 'sat' else None


# ---------------------------------------------------------------------------------------------------------------------
def _run_weight(res, p, selftest):
    from plinio.methods.mps.quant.quantizers import MinMaxWeight
    C, n = p['shape']
    b = p['bits']
    hist = p.get('hist')

    def fn(ex):
        with SymMode():
            q = MinMaxWeight(b, cout=C)
            w = SymTensor.fresh('w', (C, n))
            for v in w.elems():
                ex.assume(v >= -8192, v <= 8192)
            w0 = None
            arg = w
            if hist:
                w0t = SymTensor.fresh('w0', (C, n))
                for v in w0t.elems():
                    ex.assume(v >= -8192, v <= 8192)
                w0 = list(w0t.elems())        # the Parameter aliases this storage, which is overwritten below
                arg = nn.Parameter(w0t)
                q(arg)
                g0 = len(ex.guards)
                if hist == 'data_copy':
                    arg.data.copy_(w)
                else:
                    with torch.no_grad():
                        arg.copy_(w)
            q.dequantize = False
            qi = q(arg)
            q.dequantize = True
            fq = q(arg)
            scale = q.scale
            guards = list(ex.guards)
            if hist:
                # a degenerate first call (all-zero tensor: zero range) is not the subject here
                for g in guards[:g0]:
                    ex.assume(z3.Not(g))
                guards = guards[g0:]
        return w, st.to_arr(qi), st.to_arr(fq), st.to_arr(scale), guards, w0
    ex = Explorer(timeout_ms=Q)
    for pc, (w, qi, fq, scale, guards, w0) in ex.explore(fn):
        W = st.to_arr(w)
        wv = w.elems()
        checks = []
        nog = [z3.Not(g) for g in guards]
        for g in guards:
            checks.append(('nonfinite', g))
        lo, hi = (-2 ** (b - 1), 2 ** (b - 1) - 1) if b > 0 else (0, 0)
        if selftest:
            hi -= 1
        bad_range = []
        for v in qi.reshape(-1):
            bad_range += [st.e_lt(v, lo), st.e_gt(v, hi), st.e_not_integral(v)]
        checks.append(('range', _or(bad_range)))
        if b == 0:
            checks.append(('zero_bits', _or([st.e_ne(v, 0) for v in list(qi.reshape(-1)) + list(fq.reshape(-1))])))
        else:
            mono = []
            for c in range(C):
                for i in range(n):
                    for j in range(n):
                        if i != j:
                            mono.append(_and([st.e_le(W[c, i], W[c, j]), st.e_gt(qi[c, i], qi[c, j])]))
            if mono:
                checks.append(('mono', _or(mono)))
            deq, err = [], []
            for c in range(C):
                for i in range(n):
                    deq.append(st.e_ne(fq[c, i], st.e_mul(qi[c, i], scale[c])))
                    err.append(st.e_ge(st.e_abs(st.e_sub(fq[c, i], W[c, i])), scale[c]))
            checks.append(('dequant', _or(deq)))
            checks.append(('error', _or(err)))
        for name, bad in checks:
            if bad is False:
                res.oblige(True)
                continue
            r, m = ex.check(bad, *([] if name == 'nonfinite' else nog))
            if r == 'unknown':
                res.inconclusive.append(f'weight {C}x{n} b={b} {name}: unknown')
                continue
            res.oblige(r == 'unsat')
            if r == 'sat':
                m2 = _grid_model(ex, wv + (w0 if hist else []), [bad] + ([] if name == 'nonfinite' else nog)) or m
                rec = {'qkind': 'weight', 'shape': [C, n], 'bits': b, 'w': [st.model_value(m2, v) for v in wv], 'observable': name,
                       'key': f'MinMaxWeight|{name}|b={b}' + (f'|after_{hist}' if hist else '')}
                if hist:
                    rec['hist'] = hist
                    rec['w0'] = [st.model_value(m2, v) for v in w0]
                _viol(res, rec, f'MinMaxWeight {C}x{n} bits={b}: {name}', selftest)
        # witness + concolic validation
        r, m = ex.must(*(st.e_ne(v, 0) for v in wv[:1]))
        res.witnesses += 1
        res.witnesses_ok += 1 if r == 'sat' else 0
        m2 = _grid_model(ex, wv + (w0 if hist else []), nog) if r == 'sat' else None
        if m2 is not None:
            vals = [st.model_value(m2, v) for v in wv]
            Wc, qic, fqc, sc = concrete_weight([C, n], b, vals, hist, [st.model_value(m2, v) for v in w0] if hist else None)
            got = [float(st.model_value(m2, v)) for v in qi.reshape(-1)]
            res.sample({'quantizer': 'MinMaxWeight', 'bits': b, 'w': vals, 'int': got})
            if got == [float(v) for v in qic.reshape(-1)]:
                res.validated += 1
            else:
                res.notes.append(f'concolic difference weight b={b}: engine {got} torch {[float(v) for v in qic.reshape(-1)]} at {vals} (float32 half-way rounding)')
    res.absorb(ex)


def _or(xs):
    xs = [x for x in xs if x is not False]
    if any(x is True for x in xs):
        return True
    if not xs:
        return False
    return z3.Or([st.lift(x, 'b') for x in xs]) if len(xs) > 1 else st.lift(xs[0], 'b')


def _and(xs):
    if any(x is False for x in xs):
        return False
    xs = [x for x in xs if x is not True]
    if not xs:
        return True
    return z3.And([st.lift(x, 'b') for x in xs]) if len(xs) > 1 else st.lift(xs[0], 'b')


# ---------------------------------------------------------------------------------------------------------------------
def _run_pact(res, p, selftest):
    from plinio.methods.mps.quant.quantizers import PACTAct
    b = p['bits']
    b0 = p.get('b0')      # built with another precision, then moved to b through the public `precision` setter

    def harness(clip_fixed=None):
        def fn(ex):
            with SymMode():
                q = PACTAct(b0 or b, init_clip_val=6.)
                if b0:
                    q.precision = b
                if clip_fixed is None:
                    clip = z3.Real('clip')
                    ex.assume(clip >= Fraction(1, 20), clip <= 1000)
                else:
                    clip = z3.RealVal(str(clip_fixed))
                st.symbolify_param(q, 'clip_val', SymTensor.from_array(np.array([clip], dtype=object), torch.float32))
                x = SymTensor.fresh('x', (2,))
                q.dequantize = False
                qi = q(x)
                q.dequantize = True
                fq = q(x)
                scale = st.scalar_of(q.scale)
                guards = list(ex.guards)
            return clip, x.elems(), list(st.to_arr(qi)), list(st.to_arr(fq)), scale, guards
        return fn

    def obligations(clip, x, qi, fq, scale, guards):
        top = 2 ** b - 1 - (1 if selftest else 0)
        EPS = Fraction(1e-3)    # the stabiliser exactly as the code writes it (a double)
        step_used = (clip + EPS) / (2 ** b - 1)
        obs = [('range', _or([st.e_lt(qi[0], 0), st.e_gt(qi[0], top), st.e_not_integral(qi[0])])),
               ('neg_to_zero', _and([st.e_le(x[0], 0), st.e_ne(qi[0], 0)])),
               ('top_level', _and([st.e_ge(x[0], clip), st.e_ge(x[1], clip), st.e_ne(qi[0], qi[1])])),
               ('mono', _and([st.e_le(x[0], x[1]), st.e_gt(qi[0], qi[1])])),
               ('dequant', st.e_gt(st.e_abs(st.e_sub(fq[0], st.e_mul(qi[0], scale))), st.e_mul(qi[0], EPS / (2 ** b - 1)))),
               ('truncate', _and([st.e_ge(x[0], 0), st.e_gt(fq[0], x[0])])),
               ('error', _and([st.e_ge(x[0], 0), st.e_le(x[0], clip), st.e_ge(st.e_sub(x[0], fq[0]), step_used)]))]
        return [('nonfinite', g) for g in guards] + obs

    def run(fn, label, clipv=None):
        unknown = []
        ex = Explorer(timeout_ms=Q if label == 'sym' else 60000)
        for pc, (clip, x, qi, fq, scale, guards) in ex.explore(fn):
            nog = [z3.Not(g) for g in guards]
            for name, bad in obligations(clip, x, qi, fq, scale, guards):
                if bad is False:
                    res.oblige(True)
                    continue
                r, m = ex.check(bad, *([] if name == 'nonfinite' else nog))
                if r == 'unknown':
                    unknown.append(name)
                    continue
                res.oblige(r == 'unsat')
                if r == 'sat':
                    m2 = _grid_model(ex, [v for v in x] + ([clip] if clipv is None else []), [bad] + nog, den=1024, bound=1000) or m
                    rec = {'qkind': 'pact', 'bits': b, 'b0': b0, 'clip': st.model_value(m2, clip), 'x': [st.model_value(m2, v) for v in x], 'observable': name,
                           'key': f'PACTAct|{name}|b={b}'}
                    _viol(res, rec, f'PACTAct bits={b}: {name}', selftest)
            if label != 'sym' or not unknown:
                r, m = ex.check(st.e_gt(x[0], 0), st.e_lt(x[0], clip))
                res.witnesses += 1
                res.witnesses_ok += 1 if r == 'sat' else 0
                if r == 'sat':
                    m2 = _grid_model(ex, list(x) + ([clip] if clipv is None else []), [st.e_gt(x[0], 0), st.e_lt(x[0], clip)], den=64, bound=1000) or m
                    xs, cv = [st.model_value(m2, v) for v in x], st.model_value(m2, clip)
                    X, qic, fqc, sc = concrete_pact(b, cv, xs, b0)
                    got = [float(st.model_value(m2, v)) for v in qi]
                    res.sample({'quantizer': 'PACTAct', 'bits': b, 'clip': cv, 'x': xs, 'int': got})
                    if got == [float(v) for v in qic]:
                        res.validated += 1
                    else:
                        res.notes.append(f'concolic difference PACT b={b}: engine {got} torch {[float(v) for v in qic]} (float32 rounding at a level boundary)')
        res.absorb(ex)
        return unknown

    unk = run(harness(), 'sym')
    if unk:
        grid = [Fraction(1, 20), Fraction(1, 2), Fraction(6), Fraction(1000)]
        res.notes.append(f'PACT b={b}: symbolic clip (non-linear real arithmetic) unknown for {sorted(set(unk))} -> clip enumerated on {[str(g) for g in grid]}')
        for g in grid:
            for name in run(harness(g), 'grid', g):
                res.inconclusive.append(f'pact b={b} clip={g} {name}: unknown')


# ---------------------------------------------------------------------------------------------------------------------
def _run_bias(res, p, selftest):
    from plinio.methods.mps.quant.quantizers import QuantizerBias
    bits = p['bits']

    def fn(ex):
        with SymMode():
            q = QuantizerBias(bits, cout=2)
            bvar = SymTensor.fresh('b', (2,))
            s_a = z3.Real('s_a')
            s_w = SymTensor.fresh('s_w', (2,))
            ex.assume(s_a >= 0)
            for v in s_w.elems():
                ex.assume(v >= 0)
            ex.assume(s_w.elems()[0] == s_w.elems()[1])    # same scale on both channels: the two elements are two inputs of one quantiser
            sa = SymTensor.from_array(np.array(s_a, dtype=object), torch.float32)
            q.dequantize = False
            qi = q(bvar, sa, s_w)
            q.dequantize = True
            fq = q(bvar, sa, s_w)
            guards = list(ex.guards)
        return bvar.elems(), s_a, s_w.elems(), list(st.to_arr(qi)), list(st.to_arr(fq)), guards
    ex = Explorer(timeout_ms=Q)
    for pc, (bv, s_a, s_w, qi, fq, guards) in ex.explore(fn):
        nog = [z3.Not(g) for g in guards]
        s = [s_a * w for w in s_w]
        checks = [('nonfinite', g) for g in guards]
        checks += [('integral', _or([st.e_not_integral(v) for v in qi])),
                   ('multiple', _or([st.e_ne(f_, st.e_mul(q_, s_)) for f_, q_, s_ in zip(fq, qi, s)])),
                   ('zero_scale', _or([_and([s_ == 0, _or([st.e_ne(q_, 0), st.e_ne(f_, 0)])]) for s_, q_, f_ in zip(s, qi, fq)])),
                   ('mono', _and([st.e_le(bv[0], bv[1]), st.e_gt(qi[0], qi[1])])),
                   ('error', _or([_and([s_ > Fraction(1, 10 ** 6), st.e_gt(st.e_abs(st.e_sub(f_, b_)), s_ / 2 + (0 if not selftest else -s_ / 4))]) for s_, f_, b_ in zip(s, fq, bv)]))]
        for name, bad in checks:
            if bad is False:
                res.oblige(True)
                continue
            r, m = ex.check(bad, *([] if name == 'nonfinite' else nog))
            if r == 'unknown':
                res.inconclusive.append(f'bias b={bits} {name}: unknown')
                continue
            res.oblige(r == 'unsat')
            if r == 'sat':
                m2 = _grid_model(ex, list(bv) + [s_a] + list(s_w), [bad] + ([] if name == 'nonfinite' else nog)) or m
                rec = {'qkind': 'bias', 'bits': bits, 'b': [st.model_value(m2, v) for v in bv], 's_a': st.model_value(m2, s_a),
                       's_w': [st.model_value(m2, v) for v in s_w], 'observable': name, 'key': f'QuantizerBias|{name}'}
                _viol(res, rec, f'QuantizerBias: {name}', selftest)
        r, m = ex.check(*nog)
        res.witnesses += 1
        res.witnesses_ok += 1 if r == 'sat' else 0
        if r == 'sat':
            m2 = _grid_model(ex, list(bv) + [s_a] + list(s_w), nog) or m
            rec = {'b': [st.model_value(m2, v) for v in bv], 's_a': st.model_value(m2, s_a), 's_w': [st.model_value(m2, v) for v in s_w]}
            B, qic, fqc, sc = concrete_bias(bits, rec['b'], rec['s_a'], rec['s_w'])
            got = [float(st.model_value(m2, v)) for v in qi]
            res.sample(dict(rec, quantizer='QuantizerBias', int=got))
            if got == [float(v) for v in qic]:
                res.validated += 1
            else:
                res.notes.append(f'concolic difference bias: engine {got} torch {[float(v) for v in qic]}')
    res.absorb(ex)


# ---------------------------------------------------------------------------------------------------------------------
MONO_CLIPS = (0.05, 0.3, 1.0, 3.3, 6.0, 1000.0)


def _run_pact_fp32(res, p, selftest):
    """the real PACTActSTE.forward on bit-precise float32 terms"""
    from plinio.methods.mps.quant.quantizers.pact_act import PACTActSTE
    b = p['bits']
    F32 = st.core.F32

    def fpv(x):
        return z3.FPVal(float(np.float32(x)), F32)

    def fn(ex):
        with SymMode():
            x = SymTensor.fresh_fp32('x', (2,))
            clip = SymTensor.fresh_fp32('clip', (1,))
            cv = clip.elems()[0]
            ex.assume(z3.fpGEQ(cv, fpv(0.05)), z3.fpLEQ(cv, fpv(1000.0)))
            for v in x.elems():
                ex.assume(z3.Not(z3.fpIsNaN(v)), z3.Not(z3.fpIsInf(v)), z3.fpLEQ(z3.fpAbs(v), fpv(8192.0)))
            qi = PACTActSTE.apply(x, b, clip, False)
        return x.elems(), cv, list(st.to_arr(qi))
    ex = Explorer(timeout_ms=240000)
    for pc, (x, cv, qi) in ex.explore(fn):
        top = 2 ** b - 1 - (1 if selftest else 0)
        q0 = qi[0]
        obs = [('range', z3.Or(z3.fpIsNaN(q0), z3.fpIsInf(q0), z3.fpLT(q0, fpv(0.0)), z3.fpGT(q0, fpv(float(top))),
                               z3.Not(z3.fpEQ(q0, z3.fpRoundToIntegral(z3.RTZ(), q0)))))]
        if p.get('deep'):
            obs.append(('neg_to_zero', z3.And(z3.fpLEQ(x[0], fpv(0.0)), z3.Not(z3.fpEQ(q0, fpv(0.0))))))
        for name, bad in obs:
            t0 = time.time()
            r, m = ex.check(bad)
            if r == 'unknown':
                res.inconclusive.append(f'pact_fp32 b={b} {name}: unknown after {time.time() - t0:.0f}s')
                continue
            res.oblige(r == 'unsat')
            if r == 'sat':
                xs = [st.model_value(m, v) for v in x]
                rec = {'qkind': 'pact', 'bits': b, 'clip': st.model_value(m, cv), 'x': xs, 'observable': name, 'key': f'PACTAct|fp32:{name}|b={b}'}
                _viol(res, rec, f'PACTAct float32 bits={b}: {name} at x={[float(v) for v in xs]}', selftest)
        r, m = ex.check(z3.fpGT(q0, fpv(0.0)))
        res.witnesses += 1
        res.witnesses_ok += 1 if r == 'sat' else 0
        if r == 'sat':
            xs, c_ = [st.model_value(m, v) for v in x], st.model_value(m, cv)
            X, qic, fqc, sc = concrete_pact(b, c_, xs)
            got = [float(st.model_value(m, v)) for v in qi]
            res.sample({'quantizer': 'PACTAct(float32)', 'bits': b, 'clip': float(c_), 'x': [float(v) for v in xs], 'int': got})
            if got == [float(v) for v in qic]:
                res.validated += 1
            else:
                res.errors.append(f'FP32 engine disagrees with torch: engine {got} torch {[float(v) for v in qic]} at x={[float(v) for v in xs]} clip={float(c_)}')
    res.absorb(ex)
    if not p.get('deep'):
        return
    # monotonicity couples two runs through a symbolic division and a symbolic product: z3 does not decide it with a symbolic threshold
    # (unknown after 240 s), so it is decided per concrete clipping threshold (stated bound)
    for c_ in MONO_CLIPS:
        def fn2(ex):
            with SymMode():
                x = SymTensor.fresh_fp32('x', (2,))
                for v in x.elems():
                    ex.assume(z3.Not(z3.fpIsNaN(v)), z3.Not(z3.fpIsInf(v)), z3.fpLEQ(z3.fpAbs(v), fpv(8192.0)))
                qi = PACTActSTE.apply(x, b, torch.tensor([c_], dtype=torch.float32), False)
            return x.elems(), list(st.to_arr(qi))
        ex2 = Explorer(timeout_ms=240000)
        for pc, (x, qi) in ex2.explore(fn2):
            bad = z3.And(z3.fpLEQ(x[0], x[1]), z3.fpGT(qi[0], qi[1])) if not selftest else z3.And(z3.fpLEQ(x[0], x[1]), z3.fpGEQ(qi[0], qi[1]), z3.fpGT(qi[0], fpv(0.0)))
            t0 = time.time()
            r, m = ex2.check(bad)
            if r == 'unknown':
                res.inconclusive.append(f'pact_fp32 b={b} mono clip={c_}: unknown after {time.time() - t0:.0f}s')
                continue
            res.oblige(r == 'unsat')
            if r == 'sat':
                xs = [st.model_value(m, v) for v in x]
                rec = {'qkind': 'pact', 'bits': b, 'clip': Fraction(float(np.float32(c_))), 'x': xs, 'observable': 'mono', 'key': f'PACTAct|fp32:mono|b={b}'}
                _viol(res, rec, f'PACTAct float32 bits={b} clip={c_}: mono at x={[float(v) for v in xs]}', selftest)
        res.absorb(ex2)
