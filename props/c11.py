"""C11 - trainability controls do what they say under every sequence of calls.

Nature of the property: finite-state (requires_grad flags, sampler kind, hard flag, temperature).  The solver's contribution is
bounded model checking of the REAL objects: the operation performed at each step is a z3 integer choice variable that the
engine concretises by forking, so every call sequence up to the bound is one explored path; after every step the real state
is compared with a small reference model of what the documentation promises.  This degenerates to solver-driven exhaustive
enumeration (said plainly); the value over the unit test is completeness within the bound.
"""
import copy
import itertools
import time
from fractions import Fraction

import numpy as np
import torch
import torch.nn as nn
import z3

import symtorch as st
from symtorch import Explorer
from vlib import pitlib, snlib, mpslib
from vlib.harness import InstanceResult, jsonable

PROPERTY = 'C11'
LEVEL_TEXT = ('Bounded model checking of the real objects: every call sequence up to the bound is executed on freshly built PIT / MPS / SuperNet models and compared, after every step, with a reference state machine of the documented semantics. '
              'The state is finite and concrete, so the z3-driven choice variables only enumerate the sequences - the assurance is completeness within the bound, not symbolic data; this is the right level for a finite-state property over histories.')
TECHNIQUE = 'bounded model checking of the real PIT / MPS / SuperNet objects: the call at each step is a z3 choice variable concretised by forking (all sequences up to the bound), invariant against a reference state machine after every step'
FUNCTIONS_ENCODED = ['DNAS.train_nas_only/train_net_only/train_net_and_nas', 'PIT.train_features/train_rf/train_dilation/discrete_cost setters', 'PIT/MPS/SuperNet.named_nas_parameters/named_net_parameters',
                     'PITFrozenFeaturesMasker/PITFrozenTimestepMasker/PITFrozenDilationMasker', 'MPS.update_softmax_options', 'MPSBaseQtz.update_softmax_options', 'SuperNet.update_softmax_options', 'forward + backward of loss + cost']
BOUNDS = {'quick': 'all call sequences of length <= 3 from the freshly constructed state: PIT (13 operations; model with shared masker, strided conv, output layer), MPS (12 operations; shared quantisers), SuperNet (9 operations)',
          'thorough': 'length <= 4'}
OUTSIDE = ['sequences longer than the bound (the abstract state space - flags x sampler x hard x temperature - is closed after 2 steps; not proved)', 'optimizer steps']
ASSUMPTIONS = ['reference semantics: the last call wins; masks frozen by construction are never trainable; an update_softmax_options call changes only the options it names']
INSTANCE_TIMEOUT_S = {'quick': 1800, 'thorough': 3600}


class P11(nn.Module):
    """strided conv (frozen rf/dilation) + residual pair sharing a masker + output conv (frozen features)"""

    def __init__(self):
        super().__init__()
        self.s0 = nn.Conv1d(1, 2, 3, stride=2, padding=1)
        self.pad = nn.ConstantPad1d((1, 0), 0)
        self.a = nn.Conv1d(2, 2, 2)
        self.padb = nn.ConstantPad1d((1, 0), 0)
        self.b = nn.Conv1d(2, 2, 2)
        self.out = nn.Conv1d(2, 2, 1)

    def forward(self, x):
        x = torch.relu(self.s0(x))
        return self.out(torch.relu(self.a(self.pad(x)) + self.b(self.padb(x))))


PIT_OPS = ['train_nas_only', 'train_net_only', 'train_net_and_nas', 'train_features=True', 'train_features=False', 'train_rf=True', 'train_rf=False',
           'train_dilation=True', 'train_dilation=False', 'discrete_cost=True', 'discrete_cost=False', 'fwd_bwd', 'export']
MPS_OPS = ['train_nas_only', 'train_net_only', 'train_net_and_nas', 'temperature=0.5', 'temperature=2.0', 'hard=True', 'hard=False', 'gumbel=True', 'gumbel=False',
           'disable_sampling=True', 'disable_sampling=False', 'fwd_bwd']
SN_OPS = ['train_nas_only', 'train_net_only', 'train_net_and_nas', 'temperature=0.5', 'temperature=2.0', 'hard=True', 'hard=False', 'fwd_bwd', 'export']


def instances(tier, seed):
    L = 3 if tier == 'quick' else 4
    out = []
    for method, ops in (('PIT', PIT_OPS), ('MPS', MPS_OPS), ('SuperNet', SN_OPS)):
        for first in range(len(ops)):
            out.append({'id': f'{method}:first={ops[first]}:len<={L}', 'method': method, 'first': first, 'L': L})
    # PIT: longer sequences over the group helpers and the rf / dilation switches only (state carried from one phase of the search into the next)
    sub = ['train_nas_only', 'train_net_only', 'train_net_and_nas', 'train_rf=True', 'train_rf=False', 'train_dilation=True', 'train_dilation=False']
    for first in sub[:3]:
        out.append({'id': f'PIT:phases:first={first}:len<={L + 1}', 'method': 'PIT', 'first': PIT_OPS.index(first), 'L': L + 1, 'subset': [PIT_OPS.index(o) for o in sub]})
    return out


# ---------------------------------------------------------------------------------------------------------------------
def build(method):
    torch.manual_seed(0)
    if method == 'PIT':
        from plinio.methods import PIT
        from plinio.cost import params
        m = P11()
        pitlib.dyadic_init(m, 0)
        w = PIT(m.train(), input_shape=(1, 4), cost=params)
        return w, (1, 4)
    if method == 'MPS':
        w, model, shape = mpslib.make_mps({'fam': 'MA', 'wtype': 'layer', 'w': [2, 8], 'a': [4, 8]}, 0)
        w.train()
        return w, shape
    # two choice blocks whose own options differ (hard / temperature are per-block constructor options): a model-level update of ONE option must
    # leave the other one as it was in EVERY block
    sn, model, shape = snlib.make_sn({'n': 2, 'kind': 'conv', 'blocks': 2}, 0)
    combs = snlib.combiners(sn)
    combs[1][1].hard_softmax = True
    combs[1][1].softmax_temperature = 2.0
    sn.train()
    return sn, shape


def classify(method, w):
    """parameter id -> class in {'net', 'features', 'rf', 'dilation', 'frozen', 'nas'}"""
    cls = {}
    if method == 'PIT':
        from plinio.methods.pit.nn.features_masker import PITFrozenFeaturesMasker, PITFeaturesMasker
        from plinio.methods.pit.nn.timestep_masker import PITFrozenTimestepMasker, PITTimestepMasker
        from plinio.methods.pit.nn.dilation_masker import PITFrozenDilationMasker, PITDilationMasker
        for mod in w.modules():
            if isinstance(mod, (PITFrozenFeaturesMasker, PITFrozenTimestepMasker, PITFrozenDilationMasker)):
                for p in mod.parameters(recurse=False):
                    cls[id(p)] = 'frozen'
            elif isinstance(mod, PITFeaturesMasker):
                cls[id(mod.alpha)] = 'features'
            elif isinstance(mod, PITTimestepMasker):
                cls[id(mod.beta)] = 'rf'
            elif isinstance(mod, PITDilationMasker):
                cls[id(mod.gamma)] = 'dilation'
    else:
        for n, p in w.named_nas_parameters():
            cls[id(p)] = 'nas'
    for p in w.parameters():
        cls.setdefault(id(p), 'net')
    return cls


def initial_ref(method, w):
    cls = classify(method, w)
    ref = {'flags': {}, 'sampler': 'sm', 'hard': False, 'temperature': 1.0}
    if method == 'SuperNet':
        # per block: the options are stored on each combiner
        ref['per'] = {n: {'hard': bool(c.hard_softmax), 'temperature': float(c.softmax_temperature)} for n, c in snlib.combiners(w)}
    for p in w.parameters():
        ref['flags'][id(p)] = p.requires_grad
    return cls, ref


def apply_ref(method, cls, ref, op):
    """reference semantics of one operation"""
    f = ref['flags']
    nas = ('features', 'rf', 'dilation', 'nas')
    # ref['frozen_on']: the recorded finding (train_nas_only / train_net_and_nas switch the frozen masks on, train_net_only switches them off again)
    # as part of the reference, so that the exploration can go on past it: the deviation is reported at the call that introduces it, and anything
    # the frozen masks do that is NOT explained by it is a different violation
    if op == 'train_nas_only':
        for k, c in cls.items():
            f[k] = c in nas
        ref['frozen_on'] = True
    elif op == 'train_net_only':
        for k, c in cls.items():
            f[k] = c == 'net'
        ref['frozen_on'] = False
    elif op == 'train_net_and_nas':
        for k, c in cls.items():
            f[k] = c != 'frozen'
        ref['frozen_on'] = True
    elif op.startswith('train_') and '=' in op:
        name, val = op.split('=')
        c0 = {'train_features': 'features', 'train_rf': 'rf', 'train_dilation': 'dilation'}[name]
        for k, c in cls.items():
            if c == c0:
                f[k] = (val == 'True')
    elif op.startswith('temperature='):
        ref['temperature'] = float(op.split('=')[1])
        for v in ref.get('per', {}).values():
            v['temperature'] = ref['temperature']
    elif op.startswith('hard='):
        ref['hard'] = op.endswith('True')
        for v in ref.get('per', {}).values():
            v['hard'] = ref['hard']
    elif op.startswith('gumbel='):
        if ref['sampler'] != 'none':
            ref['sampler'] = 'gs' if op.endswith('True') else 'sm'
        ref['gumbel'] = op.endswith('True')
    elif op.startswith('disable_sampling='):
        if op.endswith('True'):
            ref['sampler'] = 'none'
        else:
            ref['sampler'] = 'gs' if ref.get('gumbel') else 'sm'


def apply_real(method, w, shape, op):
    if op in ('train_nas_only', 'train_net_only', 'train_net_and_nas'):
        getattr(w, op)()
    elif op.startswith('train_') or op.startswith('discrete_cost'):
        name, val = op.split('=')
        setattr(w, name, val == 'True')
    elif op == 'export':
        w.export()
    elif op == 'fwd_bwd':
        for p in w.parameters():
            p.grad = None
        x = torch.ones((2,) + tuple(shape)) * 0.5
        y = w(x)
        loss = (y if isinstance(y, torch.Tensor) else y[0]).sum() + w.cost
        if loss.requires_grad:
            loss.backward()
    else:
        name, val = op.split('=')
        kw = {name: (float(val) if name == 'temperature' else val == 'True')}
        w.update_softmax_options(**kw)


def observe(method, w):
    """sampler / hard / temperature of every quantiser or combiner"""
    out = []
    if method == 'MPS':
        from plinio.methods.mps.nn.qtz import MPSBaseQtz
        for n, q in w.named_modules():
            if isinstance(q, MPSBaseQtz) and q.alpha.shape[0] > 1:      # dummy single-candidate quantisers are not part of the search
                out.append((n, {'sample_alpha_sm': 'sm', 'sample_alpha_gs': 'gs', 'sample_alpha_none': 'none'}[q.sample_alpha.__name__], bool(q.hard_softmax), float(q.temperature)))
    elif method == 'SuperNet':
        for n, c in snlib.combiners(w):
            out.append((n, {'sample_alpha_sm': 'sm', 'sample_alpha_gs': 'gs'}[c.sample_alpha.__name__], bool(c.hard_softmax), float(c.softmax_temperature)))
    return out


def check_state(method, w, cls, ref, last_op):
    """-> None or (observable, text)"""
    params = list(w.parameters())
    nas = list(w.nas_parameters())
    net = list(w.net_parameters())
    ids = [id(p) for p in nas] + [id(p) for p in net]
    if sorted(ids) != sorted(id(p) for p in params) or len(set(ids)) != len(ids):
        return 'partition', f'nas ({len(nas)}) + net ({len(net)}) parameters are not a partition of the {len(params)} parameters'
    names = {id(p): n for n, p in w.named_parameters()}
    for p in params:
        c = cls[id(p)]
        if c == 'frozen' and p.requires_grad:
            if ref.get('frozen_on') and last_op not in ('train_nas_only', 'train_net_and_nas'):
                continue        # explained by the recorded deviation introduced at an earlier step (reported there)
            return 'frozen_trainable', f'{names[id(p)]} (frozen by construction) has requires_grad=True after {last_op}'
        if c != 'frozen' and p.requires_grad != ref['flags'][id(p)]:
            return 'requires_grad', f'{names[id(p)]} ({c}) requires_grad={p.requires_grad}, expected {ref["flags"][id(p)]} after {last_op}'
        if c == 'frozen' and last_op == 'fwd_bwd' and p.grad is not None and bool((p.grad != 0).any()) and not ref.get('frozen_on'):
            return 'frozen_gradient', f'{names[id(p)]} (frozen by construction) received a gradient'
    for n, sampler, hard, temp in observe(method, w):
        if method == 'MPS' and 'in_mps_quantizer' in n and False:
            continue
        want_sampler = ref['sampler'] if method == 'MPS' else 'sm'
        if sampler != want_sampler:
            return 'sampler', f'{n}: sampler is {sampler}, expected {want_sampler} after {last_op}'
        want = ref['per'][n] if 'per' in ref else ref
        if hard != want['hard']:
            return 'hard', f'{n}: hard_softmax={hard}, expected {want["hard"]} after {last_op}'
        if abs(temp - want['temperature']) > 1e-6:
            return 'temperature', f'{n}: temperature={temp}, expected {want["temperature"]} after {last_op}'
    return None


def run_sequence(method, ops_idx, stop_at_recorded=False):
    """-> None, or the first violation that the recorded deviation does not explain, or (if there is none) the recorded deviation itself"""
    ops = {'PIT': PIT_OPS, 'MPS': MPS_OPS, 'SuperNet': SN_OPS}[method]
    w, shape = build(method)
    cls, ref = initial_ref(method, w)
    recorded = []
    for k, i in enumerate(ops_idx):
        op = ops[i]
        try:
            apply_real(method, w, shape, op)
        except Exception as e:
            if 'backward through the graph a second time' in str(e):
                # sampling disabled: the stored coefficients still carry the graph of an earlier forward pass (plain PyTorch semantics, not a trainability matter)
                continue
            return (k, 'raised', f'{op} raised {type(e).__name__}: {e}'[:200])
        apply_ref(method, cls, ref, op)
        prob = check_state(method, w, cls, ref, op)
        if prob is not None:
            if prob[0] == 'frozen_trainable' and op in ('train_nas_only', 'train_net_and_nas') and not stop_at_recorded:
                recorded.append((k, prob[0], prob[1]))
                continue
            return (k, prob[0], prob[1])
    return recorded[0] if recorded else None


def replay(rec):
    r = run_sequence(rec['method'], rec['sequence'])
    return r is not None and r[1] == rec['observable'], f'{r}'


def run_instance(p):
    res = InstanceResult(p['id'])
    method, first, L, selftest = p['method'], p['first'], p['L'], p.get('selftest', False)
    ops = {'PIT': PIT_OPS, 'MPS': MPS_OPS, 'SuperNet': SN_OPS}[method]
    base, shape = build(method)

    def fn(ex):
        length = z3.Int('len')
        ex.assume(length >= 1, length <= L)
        n = int(st.concretize_scalar(length))
        seq = [first]
        subset = p.get('subset')
        for k in range(1, n):
            c = z3.Int(f'op{k}')
            ex.assume(c >= 0, c < (len(subset) if subset else len(ops)))
            v = int(st.concretize_scalar(c))
            seq.append(subset[v] if subset else v)
        return seq
    ex = Explorer(timeout_ms=30000)
    seen_keys = set()
    for pc, seq in ex.explore(fn):
        r = run_sequence(method, seq)
        if selftest and len(seq) == 2 and seq[1] == 0:
            r = (1, 'requires_grad', 'seeded')
        res.oblige(r is None)
        if r is None:
            res.validated += 1
            if ex.n_paths <= 2:
                res.sample({'method': method, 'sequence': [ops[i] for i in seq], 'result': 'invariant holds after every step'})
            continue
        k, obs, text = r
        # minimal witness: report the shortest failing prefix only
        pre = seq[:k + 1]
        key = f'{method}|{obs}|after:{ops[pre[-1]]}' + ('|selftest' if selftest else '')
        if key in seen_keys:
            continue
        seen_keys.add(key)
        rec = {'method': method, 'sequence': pre, 'ops': [ops[i] for i in pre], 'observable': obs, 'key': key, 'what': f'{method}: after {[ops[i] for i in pre]}: {text}'}
        if selftest:
            res.violations.append(jsonable(rec))
            continue
        okr, msg = replay(rec)
        if okr:
            res.violations.append(jsonable(rec))
        else:
            res.errors.append(f'counterexample did not reproduce: {key}: {msg}')
    res.witnesses += 1
    res.witnesses_ok += 1 if ex.n_paths >= len(ops) else 0
    res.absorb(ex)
    return res
