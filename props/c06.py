"""C06 - SuperNet cost is the coefficient-weighted mix of branch costs.

alpha of every combiner, the softmax temperature and the Gumbel noise are symbolic (softmax = arbitrary order-preserving map into the
simplex).  After a forward pass the real SuperNet.get_cost term must equal (unsat of !=)  sum_blocks sum_i theta_i * c_i (+ fixed layers
with full_cost), where every branch cost c_i is measured from scratch on the user's model (numel / forward-hook MAC counts);
it must lie between the cheapest and the most expensive selection; under hard selection it must equal the metric counted on
the exported network, and re-wrapping the exported network (SuperNet(exported, full_cost=True)) must report that same value.
"""
import copy
import itertools
import time
from fractions import Fraction

import numpy as np
import torch
import torch.nn as nn
import z3

import symtorch as st
from symtorch import Explorer, SymMode, SymTensor, swapped_params
from vlib import snlib, pitlib
from vlib.harness import InstanceResult, jsonable

PROPERTY = 'C06'
TECHNIQUE = 'symbolic execution of the real SuperNet cost path on z3-real coefficients/temperature/noise; equality with the from-scratch weighted mix, range and exported-network agreement as unsat queries'
FUNCTIONS_ENCODED = ['SuperNetCombiner.get_cost/forward/sample_alpha_sm/sample_alpha_gs', 'SuperNet.get_cost/_get_single_cost/_single_cost_fn_map/__init__', 'link_combiners_to_branches',
                     'plinio.cost.params / ops (registered functions)', 'SuperNet.export (hard-selection oracle)']
BOUNDS = {'quick': 'S(n,kind) n in {2,3,4}, kinds conv/seq/mix, 1-2 blocks, block used twice; metrics params (shared) and ops (per invocation) as a dictionary; soft, hard and Gumbel(train) sampling; full_cost on/off; temperature symbolic in [0.05,20]; Gumbel blocks with hard selection evaluated in eval mode (cost == metric of the exported network)',
          'thorough': 'n up to 6, all kinds, 1..3 blocks, single-spec variants'}
OUTSIDE = ['blocks invoked twice at different resolutions', 'float32 rounding', 'user-defined cost specifications']
ASSUMPTIONS = ['softmax: arbitrary order-preserving map into the open simplex; Gumbel noise arbitrary', 'branch costs measured by numel / forward hooks on the unconverted model']
INSTANCE_TIMEOUT_S = {'quick': 1500, 'thorough': 3600}
Q = 60000


def instances(tier, seed):
    specs = [{'n': 2, 'kind': 'conv'}, {'n': 3, 'kind': 'seq'}, {'n': 4, 'kind': 'mix'}, {'n': 2, 'kind': 'mix', 'blocks': 2}, {'n': 3, 'kind': 'conv', 'twice': True}, {'n': 2, 'kind': 'dw'}, {'n': 2, 'kind': 'conv', 'stem2': True}, {'n': 2, 'kind': 'conv', 'collide': True}]
    if tier == 'thorough':
        specs += [{'n': n, 'kind': k} for n in (2, 3, 5, 6) for k in ('conv', 'seq', 'user', 'identity', 'mix')] + [{'n': 2, 'kind': 'mix', 'blocks': 3, 'twice': True}]
    out = []
    for s in specs:
        for full in (False, True):
            for mode in ('soft', 'hard', 'gumbel'):
                out.append({'id': f'{snlib.prog_id(s)}:full={int(full)}:{mode}', 'spec': s, 'full': full, 'mode': mode, 'wseed': seed})
        out.append({'id': f'{snlib.prog_id(s)}:rewrap', 'spec': s, 'full': True, 'mode': 'rewrap', 'wseed': seed})
    # hard selection asked of a Gumbel block, evaluated in eval mode (no noise): "under hard selection it equals the same metric on the exported network"
    for s in specs[:3]:
        out.append({'id': f'{snlib.prog_id(s)}:full=1:gs_hard_eval', 'spec': s, 'full': True, 'mode': 'gs_hard_eval', 'wseed': seed})
    # two-stage search: an exported SuperNet as one alternative of a block of a second SuperNet (its layer names contain 'sn_branches' twice)
    for mode in ('soft', 'hard'):
        s2 = {'two_stage': True}
        out.append({'id': f'{snlib.prog_id(s2)}:full=1:{mode}', 'spec': s2, 'full': True, 'mode': mode, 'wseed': seed})
    # hard Gumbel sampling in training mode: the cost is weighted by the SAMPLED one-hot (which need not sit at the largest raw coefficient)
    for s in (specs[0], specs[3]):
        out.append({'id': f'{snlib.prog_id(s)}:full=0:gs_hard_train', 'spec': s, 'full': False, 'mode': 'gs_hard_train', 'wseed': seed})
    return out


def _cost_specs():
    from plinio.cost import params, ops
    return {'params': params, 'ops': ops}


def scratch(spec, wseed):
    """per-leaf params and per-forward MAC counts measured on the unconverted user model -> (fixed, {block: {branch: cost}})"""
    model, shape = snlib.build(spec, wseed)
    model.eval()
    ops = {}
    hooks = []

    def mk(name):
        def h(m, inp, out):
            if isinstance(m, nn.Linear):
                c = m.out_features * (m.in_features + (1 if m.bias is not None else 0))
            else:
                k = 1
                for ki in m.kernel_size:
                    k *= ki
                pos = 1
                for s_ in out.shape[2:]:
                    pos *= s_
                c = m.out_channels * ((m.in_channels // m.groups) * k + (1 if m.bias is not None else 0)) * pos
            ops[name] = ops.get(name, 0) + c
        return h
    par = {}
    for n, m in model.named_modules():
        if isinstance(m, (nn.Conv1d, nn.Conv2d, nn.Linear)):
            hooks.append(m.register_forward_hook(mk(n)))
            par[n] = m.weight.numel() + (m.bias.numel() if m.bias is not None else 0)
    with torch.no_grad():
        model(torch.zeros((1,) + tuple(shape)))
    for h in hooks:
        h.remove()
    fixed = {'params': 0, 'ops': 0}
    branches = {}
    for n in par:
        if '.sn_branches.' in n:
            block, rest = n.split('.sn_branches.', 1)       # the outermost choice block (an exported network inside a branch keeps inner names)
            bi = int(rest.split('.')[0])
            d = branches.setdefault(block, {}).setdefault(bi, {'params': 0, 'ops': 0})
            d['params'] += par[n]
            d['ops'] += ops.get(n, 0)
        else:
            fixed['params'] += par[n]
            fixed['ops'] += ops.get(n, 0)
    # branches without any layer (Identity) cost nothing
    from plinio.methods.supernet import SuperNetModule
    for n, m in model.named_modules():
        if isinstance(m, SuperNetModule):
            for bi in range(len(m.sn_branches)):
                branches.setdefault(n, {}).setdefault(bi, {'params': 0, 'ops': 0})
    return fixed, branches


def exported_counts(exported_real, shape):
    exported_real.eval()
    return {'params': pitlib.count_params(exported_real), 'ops': pitlib.count_ops(exported_real, torch.zeros((1,) + tuple(shape)), True)}


def concrete_case(rec):
    if rec['mode'] == 'gs_hard_train':
        # the sampled one-hot depends on the noise: several seeds, the first one on which cost and coefficient-weighted mix disagree is reported
        out = None
        for sd in range(24):
            out = _concrete_case(rec, sd)
            if any(abs(out['got'][m] - out['mix'][m]) > 1e-4 * max(1, abs(out['mix'][m])) for m in out['got']):
                return out
        return out
    return _concrete_case(rec, 0)


def _concrete_case(rec, rng_seed=0):
    from plinio.methods import SuperNet
    spec, full, mode = rec['spec'], rec['full'], rec['mode']
    sn, model, shape = snlib.make_sn(spec, rec.get('wseed', 0), cost=_cost_specs(), full_cost=full)
    snlib.set_alphas(sn, rec['alphas'])
    T = float(Fraction(rec.get('temperature', 1)))
    if mode in ('gs_hard_eval', 'gs_hard_train'):
        for _, c in snlib.combiners(sn):
            c.sample_alpha = c.sample_alpha_gs
        sn.train(mode == 'gs_hard_train')
    sn.update_softmax_options(temperature=T, hard=(mode in ('hard', 'rewrap', 'gs_hard_eval', 'gs_hard_train')))
    torch.manual_seed(rng_seed)
    with torch.no_grad():
        sn(torch.zeros((1,) + tuple(shape)))
    got = {m: float(sn.get_cost(m)) for m in ('params', 'ops')}
    theta = {n: [float(v) for v in c.theta_alpha] for n, c in snlib.combiners(sn)}
    fixed, branches = scratch(spec, rec.get('wseed', 0))
    want = {}
    for m in ('params', 'ops'):
        w = fixed[m] if full else 0
        for n, th in theta.items():
            block = n.replace('seed.', '').rsplit('.sn_combiner', 1)[0]
            w += sum(t * branches[block][i][m] for i, t in enumerate(th))
        want[m] = w
    out = {'got': got, 'mix': want, 'theta': theta}
    if mode in ('hard', 'rewrap', 'gs_hard_eval'):
        e = sn.export().eval()
        out['exported'] = exported_counts(e, shape)
        if mode == 'rewrap':
            try:
                sn2 = SuperNet(copy.deepcopy(e), input_shape=shape, cost=_cost_specs(), full_cost=True)
                out['rewrap'] = {m: float(sn2.get_cost(m)) for m in ('params', 'ops')}
            except Exception as ex_:
                out['rewrap_err'] = f'{type(ex_).__name__}: {ex_}'[:200]
    return out


def replay(rec):
    o = concrete_case(rec)
    m = rec['metric']
    obs = rec['observable']
    tol = 1e-4
    if obs == 'mix':
        return abs(o['got'][m] - o['mix'][m]) > tol * max(1, abs(o['mix'][m])), str(o)[:600]
    if obs == 'exported':
        want = o['exported'][m] if rec['full'] else None
        return want is not None and abs(o['got'][m] - want) > tol * max(1, want), str(o)[:600]
    if obs == 'rewrap':
        if 'rewrap_err' in o:
            return True, str(o)[:600]
        return abs(o['rewrap'][m] - o['exported'][m]) > tol * max(1, o['exported'][m]), str(o)[:600]
    return False, 'unknown observable'


def run_instance(p):
    res = InstanceResult(p['id'])
    spec, full, mode, wseed, selftest = p['spec'], p['full'], p['mode'], p.get('wseed', 0), p.get('selftest', False)
    if mode == 'rewrap':
        return _run_rewrap(res, p)
    sn, model, shape = snlib.make_sn(spec, wseed, cost=_cost_specs(), full_cost=full)
    fixed, branches = scratch(spec, wseed)
    combs = snlib.combiners(sn)
    if mode == 'gumbel':
        for _, c in combs:
            c.sample_alpha = c.sample_alpha_gs
        sn.train()
    if mode in ('gs_hard_eval', 'gs_hard_train'):
        for _, c in combs:
            c.sample_alpha = c.sample_alpha_gs
        sn.train(mode == 'gs_hard_train')
    sn.update_softmax_options(hard=(mode in ('hard', 'gs_hard_eval', 'gs_hard_train')))
    # cheapest / most expensive selection (over all winner tuples)
    rng = {}
    for m in ('params', 'ops'):
        lo = hi = fixed[m] if full else 0
        for block, bs in branches.items():
            lo += min(b[m] for b in bs.values())
            hi += max(b[m] for b in bs.values())
        rng[m] = (lo, hi)

    def fn(ex):
        pairs, sy = snlib.fresh_alphas(sn, ex, distinct=True)
        T = z3.Real('T')
        ex.assume(T >= Fraction(1, 20), T <= 20)
        with SymMode(), swapped_params(pairs):
            for _, c in combs:
                c.softmax_temperature = st.SymScalar(T)
            try:
                sn(torch.zeros((1,) + tuple(shape)))
                costs = {m: st.scalar_of(sn.get_cost(m)) for m in ('params', 'ops')}
                theta = {n: list(st.to_arr(c.theta_alpha).reshape(-1)) for n, c in combs}
                e = sn.export() if mode in ('hard', 'gs_hard_eval') else None
            finally:
                for _, c in combs:
                    c.softmax_temperature = 1
                    c.theta_alpha = torch.ones(c.n_branches) / c.n_branches
        expc = exported_counts(pitlib.realize(e), shape) if e is not None else None
        return sy, T, costs, theta, expc
    ex = Explorer(timeout_ms=Q)
    n = 0
    for pc, (sy, T, costs, theta, expc) in ex.explore(fn):
        n += 1
        for m in ('params', 'ops'):
            want = Fraction(fixed[m] if full else 0)
            for cname, th in theta.items():
                block = cname.replace('seed.', '').rsplit('.sn_combiner', 1)[0]
                for i, t in enumerate(th):
                    want = st.e_add(want, st.e_mul(t, Fraction(branches[block][i][m])))
            if selftest and m == 'params':
                want = st.e_add(want, 1)
            checks = [('mix', st.e_ne(costs[m], want)), ('range', st.lift(st.e_lt(costs[m], rng[m][0]), 'b') if st.is_sym(costs[m]) else costs[m] < rng[m][0]),
                      ('range', st.e_gt(costs[m], rng[m][1]))]
            if expc is not None and full:
                checks.append(('exported', st.e_ne(costs[m], Fraction(expc[m]))))
            for obs, bad in checks:
                if bad is False:
                    res.oblige(True)
                    continue
                r, mm = ex.check(bad) if bad is not True else ex.check()
                if r == 'unknown':
                    res.inconclusive.append(f'path {n} {m} {obs}: unknown')
                    continue
                res.oblige(r == 'unsat')
                if r == 'sat':
                    m2 = snlib.grid_model(ex, sy, ([bad] if bad is not True else []) + [T == 1]) or mm
                    rec = {'spec': spec, 'wseed': wseed, 'full': full, 'mode': mode, 'metric': m, 'alphas': snlib.values_of(m2, sy), 'temperature': st.model_value(m2, T),
                           'observable': 'mix' if obs == 'range' else obs, 'key': f'{snlib.prog_id(spec)}|{m}|{obs}|full={int(full)}|{mode}' + ('|selftest' if selftest else ''),
                           'what': f'{snlib.prog_id(spec)} full_cost={full} {mode}: {m} cost {st.model_value(m2, costs[m]) if st.is_sym(costs[m]) else costs[m]} violates {obs}'}
                    if selftest:
                        res.violations.append(jsonable(rec))
                        continue
                    if any(v['key'] == rec['key'] for v in res.violations):
                        continue
                    if mode == 'gumbel':
                        # Gumbel noise is not reproducible with a seed: the replay checks the deterministic soft mix instead
                        rec['mode'] = 'soft'
                    okr, msg = replay(jsonable(rec))
                    if okr:
                        rec['replay_msg'] = msg
                        res.violations.append(jsonable(rec))
                    else:
                        res.errors.append(f'counterexample did not reproduce: {rec["key"]}: {msg[:400]}')
        if n <= 3 and mode != 'gumbel':
            m2 = snlib.grid_model(ex, sy, [T == 1])
            if m2 is not None:
                rec = {'spec': spec, 'wseed': wseed, 'full': full, 'mode': mode, 'alphas': jsonable(snlib.values_of(m2, sy)), 'temperature': 1}
                o = concrete_case(rec)
                res.sample({'program': snlib.prog_id(spec), 'mode': mode, 'full_cost': full, 'alphas': rec['alphas'], 'cost_torch': o['got'], 'weighted_mix': o['mix'], 'range': rng})
                if all(abs(o['got'][m] - o['mix'][m]) <= 1e-3 * max(1, o['mix'][m]) for m in o['got']):
                    res.validated += 1
                else:
                    res.errors.append(f'engine says cost == mix but plain torch: {o}')
    res.witnesses += 1
    res.witnesses_ok += 1 if ex.n_paths >= 1 else 0
    res.absorb(ex)
    return res


def _run_rewrap(res, p):
    """hard selection for every winner tuple (enumerated by forking on the arg-max): SuperNet(export(), full_cost=True) reports the metric
    counted on the exported network"""
    from plinio.methods import SuperNet
    spec, wseed, selftest = p['spec'], p.get('wseed', 0), p.get('selftest', False)
    sn, model, shape = snlib.make_sn(spec, wseed, cost=_cost_specs(), full_cost=True)
    sn.update_softmax_options(hard=True)

    def fn(ex):
        pairs, sy = snlib.fresh_alphas(sn, ex, distinct=True)
        with SymMode(), swapped_params(pairs):
            try:
                sn(torch.zeros((1,) + tuple(shape)))
                e = sn.export()
            finally:
                for _, c in snlib.combiners(sn):
                    c.theta_alpha = torch.ones(c.n_branches) / c.n_branches
        e = pitlib.realize(e).eval()
        expc = exported_counts(e, shape)
        err, got = None, None
        try:
            sn2 = SuperNet(copy.deepcopy(e), input_shape=shape, cost=_cost_specs(), full_cost=True)
            got = {m: float(sn2.get_cost(m)) for m in ('params', 'ops')}
        except Exception as ex_:
            err = f'{type(ex_).__name__}: {ex_}'[:200]
        return sy, expc, got, err
    ex = Explorer(timeout_ms=Q)
    for pc, (sy, expc, got, err) in ex.explore(fn):
        bad = err is not None or any(abs(got[m] - expc[m]) > 1e-6 * max(1, expc[m]) for m in expc)
        if selftest:
            bad = True
        res.oblige(not bad)
        m2 = snlib.grid_model(ex, sy, [])
        alphas = snlib.values_of(m2, sy)
        res.sample({'program': snlib.prog_id(spec), 'alphas': alphas, 'exported_counts': expc, 'rewrapped_cost': got, 'error': err})
        if bad:
            metric = 'params' if (err or abs(got['params'] - expc['params']) > 1e-6) else 'ops'
            rec = {'spec': spec, 'wseed': wseed, 'full': True, 'mode': 'rewrap', 'metric': metric, 'alphas': alphas, 'temperature': 1, 'observable': 'rewrap',
                   'key': f'{snlib.prog_id(spec)}|rewrap|{"raises" if err else "cost"}' + ('|selftest' if selftest else ''),
                   'what': f'{snlib.prog_id(spec)}: SuperNet(export(), full_cost=True): {err or got} but the exported network has {expc}'}
            if selftest:
                res.violations.append(jsonable(rec))
                continue
            if any(v['key'] == rec['key'] for v in res.violations):
                continue
            okr, msg = replay(jsonable(rec))
            if okr:
                rec['replay_msg'] = msg
                res.violations.append(jsonable(rec))
            else:
                res.errors.append(f'counterexample did not reproduce: {rec["key"]}: {msg[:400]}')
        else:
            res.validated += 1
    res.witnesses += 1
    res.witnesses_ok += 1 if ex.n_paths >= 2 else 0
    res.absorb(ex)
    return res
