"""C17 - a checkpointed search resumes to an observationally identical model.

Instead of exploring optimiser histories the STATE is symbolic: every floating-point tensor of model A's state_dict (masks,
coefficients, clip values, weights, BatchNorm statistics, temperature buffers, sampled coefficients) is a fresh z3 real -
"any checkpoint after any number of steps".  A short prefix of option updates (with symbolic arguments) runs on A first, so that
whatever lives outside the state_dict holds non-default values.  B is a freshly constructed wrapper of the same seed (same
constructor arguments); B.load_state_dict(A.state_dict()).  Then, for all states and inputs: no missing / unexpected keys and
A(x) == B(x), every cost, summary() and the exported networks agree (unsat queries).  A sat answer names what lives outside.
"""
import copy
import time
from fractions import Fraction

import numpy as np
import torch
import torch.nn as nn
import z3

import symtorch as st
from symtorch import Explorer, SymMode, SymTensor
from vlib import pitlib, snlib, mpslib
from vlib.harness import InstanceResult, jsonable

PROPERTY = 'C17'
TECHNIQUE = 'symbolic STATE: every state_dict tensor of the checkpointed model is a z3 real; load into a fresh wrapper; output / cost / summary / export equality for all states and inputs as unsat queries'
FUNCTIONS_ENCODED = ['nn.Module.state_dict/load_state_dict on PIT / MPS / SuperNet wrappers', 'PIT/MPS/SuperNet.forward/get_cost/summary/export', 'MPSBaseQtz.update_softmax_options', 'SuperNet.update_softmax_options',
                     'PIT.discrete_cost setter', 'register_buffer / nn.Parameter sites of maskers, quantizers, combiners, features calculators']
BOUNDS = {'quick': 'PIT T1(K=2) and L1 (Linear+BN), MPS ML per-layer, SuperNet S(2,conv); prefixes: none, temperature := T (symbolic in [0.05,20], and the concrete values 1/2 and 3 for MPS), MPS also compared in training mode with soft sampling (re-sampled coefficients, cost), hard := True, discrete_cost := True, gumbel := True; eval mode; prefixes train_net_only (PIT, MPS, SuperNet) and a per-layer temperature schedule (MPS); tensors sharing storage stay one tensor in the symbolic state',
          'thorough': 'PIT T2 / D2, MPS MD per-layer and per-channel, SuperNet S(3,mix) / 2 blocks; prefixes of length 2'}
OUTSIDE = ['optimizer internal state', 'RNG state', 'train-mode forward arithmetic', 'constructor arguments (the fresh wrapper is built with the same ones; only options changed AFTER construction count)']
ASSUMPTIONS = ['BatchNorm running variances >= 0', 'MPS / SuperNet coefficient margins >= 0.05 where an arg-max decides']
INSTANCE_TIMEOUT_S = {'quick': 1800, 'thorough': 3600}
Q = 60000


def instances(tier, seed):
    out = []
    cfgs = [('PIT', {'fam': 'T1', 'K': 2, 'C': 2}, ['none', 'discrete_cost', 'train_net_only']), ('PIT', {'fam': 'L1'}, ['none']),
            ('MPS', {'fam': 'ML', 'bn': False, 'wtype': 'layer', 'w': [2, 8], 'a': [4, 8]}, ['none', 'temperature', 'temperature=1/2', 'temperature=3', 'hard', 'gumbel', 'train_net_only', 'train_nas_only', 'layer_temperatures']),
            ('SuperNet', {'n': 2, 'kind': 'conv'}, ['none', 'temperature', 'hard', 'train_net_only']),
            ('SuperNet', {'n': 2, 'kind': 'conv', 'gumbel': True}, ['train_forward']),
            ('MPS', {'fam': 'ML', 'bn': False, 'wtype': 'layer', 'w': [2, 8], 'a': [4, 8], 'mps': {'disable_sampling': True}}, ['none'])]
    if tier == 'thorough':
        cfgs += [('PIT', {'fam': 'T2', 'K0': 2, 'K1': 2, 'T': 3}, ['none', 'discrete_cost']), ('MPS', {'fam': 'MD', 'wtype': 'layer', 'w': [2, 8], 'a': [4, 8]}, ['none', 'temperature', 'hard']),
                 ('SuperNet', {'n': 3, 'kind': 'mix'}, ['none', 'temperature', 'hard']), ('SuperNet', {'n': 2, 'kind': 'mix', 'blocks': 2}, ['none', 'hard'])]     # (symbolic temperature on two mixed blocks: the model extraction for the replay times out; the recorded temperature finding is exercised on the smaller programs)
    for method, spec, prefixes in cfgs:
        ident = pitlib.prog_id(spec) if method == 'PIT' else (mpslib.prog_id(spec) if method == 'MPS' else snlib.prog_id(spec))
        for pre in prefixes:
            out.append({'id': f'{method}:{ident}:prefix={pre}', 'method': method, 'spec': spec, 'prefix': pre, 'wseed': seed})
    return out


def build(method, spec, wseed):
    if method == 'PIT':
        from plinio.cost import params, ops
        w, model, shape = pitlib.make_pit(spec, wseed, cost={'params': params, 'ops': ops})
    elif method == 'MPS':
        from plinio.cost import params_bit, ops_bit
        w, model, shape = mpslib.make_mps(spec, wseed, cost={'params_bit': params_bit, 'ops_bit': ops_bit})
    else:
        from plinio.cost import params, ops
        w, model, shape = snlib.make_sn(spec, wseed, cost={'params': params, 'ops': ops}, full_cost=True)
    return w.eval(), shape


def cost_names(method):
    return ('params_bit', 'ops_bit') if method == 'MPS' else ('params', 'ops')


def apply_prefix(method, w, pre, T, xin=None):
    for op in pre.split('+'):
        if op == 'none':
            continue
        if op == 'temperature':
            w.update_softmax_options(temperature=T)
        elif op.startswith('temperature='):
            # a concrete temperature (all queries stay linear, unlike the symbolic one)
            w.update_softmax_options(temperature=float(Fraction(op.split('=')[1])))
        elif op == 'layer_temperatures':
            # a per-layer temperature schedule through the layers' own public method: every decision has its own temperature
            from plinio.methods.mps.nn.module import MPSModule
            k_ = 0
            for lay in w.modules():
                if isinstance(lay, MPSModule):
                    lay.update_softmax_options(temperature=0.5 + 0.75 * k_)
                    k_ += 1
        elif op == 'hard':
            w.update_softmax_options(hard=True)
        elif op == 'gumbel':
            w.update_softmax_options(gumbel=True)
        elif op == 'discrete_cost':
            w.discrete_cost = True
        elif op in ('train_net_only', 'train_nas_only', 'train_net_and_nas'):
            # the phase of the search in which the checkpoint is taken (fine-tuning / warm-up): which group is trainable is not part of the
            # state_dict, and nothing observable may depend on it
            getattr(w, op)()
        elif op == 'train_forward':
            # a training-mode forward pass after the last option update, then back to eval for the observation
            w.train()
            w(xin)
            w.eval()


def symbolify(model, prefix, fresh, ex=None, sym_weights=True, conc_theta=False):
    """replace every floating parameter / buffer by a SymTensor (fresh symbolic, or holding the concrete values)"""
    syms = {}
    shared = {}       # tensors that share their storage in the real model (one tensor registered in several places) stay ONE tensor
    for mn, mod in model.named_modules():
        for d in (mod._parameters, mod._buffers):
            for k, v in list(d.items()):
                if v is None or not isinstance(v, torch.Tensor) or isinstance(v, SymTensor):
                    continue
                if v.numel() > 0:
                    akey = (v.data_ptr(), tuple(v.shape), tuple(v.stride()), v.dtype)
                    if akey in shared:
                        d[k] = shared[akey]
                        continue
                # constant buffers (precision tables, keep-alive vectors, comb matrices, calculator constants) are written once at
                # construction and drive python control flow: they keep their values; everything a search can change is symbolic
                mutable = (d is mod._parameters or k in ('running_mean', 'running_var', 'theta_alpha', 'temperature')) and k != 'clip_val'
                if fresh and conc_theta and k == 'theta_alpha' and v.shape[0] > 1:
                    # sampling disabled: the stored coefficients are what is evaluated; a concrete non-default probability vector is checkpointed
                    mutable = False
                    with torch.no_grad():
                        v = torch.softmax(torch.arange(v.shape[0], dtype=torch.float32) * 0.7, dim=0).reshape([-1] + [1] * (v.dim() - 1)).expand_as(v).clone()
                if fresh and not sym_weights and k in ('weight', 'bias') and d is mod._parameters:
                    # MPS: symbolic weights fork inside every weight/bias quantiser; a concrete perturbation of the initial weights is checkpointed instead
                    mutable = False
                    with torch.no_grad():
                        v = v.clone() + 0.125
                if fresh and k == 'running_var':
                    # symbolic variances need sqrt (non-linear axioms); a concrete non-default value is checkpointed instead
                    mutable = False
                    with torch.no_grad():
                        v = v.clone().fill_(4.0)
                if fresh and k == 'clip_val':
                    # trained clip values: a concrete non-default value (symbolic clip values make the quantiser non-linear and are concretised by
                    # summary()); a restore that forgets them is still visible
                    with torch.no_grad():
                        v = v.clone().fill_(3.5)
                if fresh and mutable and v.dtype.is_floating_point and v.numel() > 0:
                    name = f'{prefix}_{mn}_{k}'.replace('.', '_')
                    s = SymTensor.fresh(name, tuple(v.shape))
                    if ex is not None:
                        if k == 'running_var':
                            for e in s.elems():
                                ex.assume(e >= 0)
                        if k in ('clip_val',):
                            for e in s.elems():
                                ex.assume(e >= Fraction(1, 20), e <= 1000)
                        if k == 'temperature':
                            for e in s.elems():
                                ex.assume(e >= Fraction(1, 20), e <= 20)
                        if k == 'alpha' and (('mps_quantizer' in mn) or ('sn_combiner' in mn)):
                            A = st.to_arr(s).reshape(s.shape[0], -1)
                            for c in range(A.shape[1]):
                                col = list(A[:, c])
                                for i in range(len(col)):
                                    ex.assume(col[i] >= -4, col[i] <= 4)
                                    for j in range(i + 1, len(col)):
                                        ex.assume(z3.Or(col[i] - col[j] >= Fraction(1, 20), col[j] - col[i] >= Fraction(1, 20)))
                    syms[f'{mn}.{k}'] = s
                    if d is mod._parameters and v.requires_grad:
                        s.requires_grad_(True)          # which group is trainable is visible to the code under analysis
                    d[k] = s
                    if v.numel() > 0:
                        shared[akey] = s
                else:
                    c = SymTensor.from_array(st.to_arr(v), v.dtype)
                    if d is mod._parameters and v.requires_grad:
                        c.requires_grad_(True)
                    d[k] = c
                    if v.numel() > 0:
                        shared[akey] = c
    return syms


def concrete_case(rec):
    """plain torch: random-ish state from the record, prefix on A, save / load into fresh B, compare"""
    method, spec = rec['method'], rec['spec']
    A, shape = build(method, spec, rec.get('wseed', 0))
    B, _ = build(method, spec, rec.get('wseed', 0))
    sdA = A.state_dict()
    with torch.no_grad():
        for k in sdA:
            if k.endswith('clip_val'):
                sdA[k].fill_(3.5)
            elif k.endswith('running_var'):
                sdA[k].fill_(4.0)
            elif method == 'MPS' and (k.endswith('.weight') or k.endswith('.bias')):
                sdA[k].add_(0.125)
            elif method == 'MPS' and spec.get('mps', {}).get('disable_sampling') and k.endswith('theta_alpha') and sdA[k].shape[0] > 1:
                v = sdA[k]
                sdA[k].copy_(torch.softmax(torch.arange(v.shape[0], dtype=torch.float32) * 0.7, dim=0).reshape([-1] + [1] * (v.dim() - 1)).expand_as(v))
        for k, vals in rec.get('state', {}).items():
            if k in sdA and sdA[k].dtype.is_floating_point and len(vals) == sdA[k].numel():
                sdA[k].copy_(torch.tensor([float(Fraction(v)) for v in vals], dtype=sdA[k].dtype).reshape(sdA[k].shape))
    A.load_state_dict(sdA)
    if method == 'MPS' and spec.get('mps', {}).get('disable_sampling'):
        # write the stored coefficients on the modules themselves (the state under test may not even be part of the state_dict)
        from plinio.methods.mps.nn.qtz import MPSBaseQtz
        for q in A.modules():
            if isinstance(q, MPSBaseQtz) and q.theta_alpha.shape[0] > 1:
                v = q.theta_alpha
                q.theta_alpha = torch.softmax(torch.arange(v.shape[0], dtype=torch.float32) * 0.7, dim=0).reshape([-1] + [1] * (v.dim() - 1)).expand_as(v).clone()
    T = float(Fraction(rec.get('T', 1)))
    x = torch.tensor([float(Fraction(v)) for v in rec['x']], dtype=torch.float32).reshape((1,) + tuple(shape))
    torch.manual_seed(3)
    apply_prefix(method, A, rec['prefix'], T, x)
    torch.manual_seed(0)
    with torch.no_grad():
        A(x)
        r = B.load_state_dict(A.state_dict(), strict=False)
        if r.missing_keys or r.unexpected_keys:
            return f'keys: missing {r.missing_keys} unexpected {r.unexpected_keys}'
        torch.manual_seed(1)
        ya = A(x)
        torch.manual_seed(1)
        yb = B(x)
        if float((ya - yb).abs().max()) > 1e-5 * max(1.0, float(ya.abs().max())):
            return f'output: {ya.reshape(-1).tolist()} vs {yb.reshape(-1).tolist()}'
        for n in cost_names(method):
            ca, cb = float(A.get_cost(n)), float(B.get_cost(n))
            if abs(ca - cb) > 1e-5 * max(1, abs(ca)):
                return f'cost: {n} {ca} vs {cb}'
        if str(A.summary()) != str(B.summary()):
            return f'summary: {A.summary()} vs {B.summary()}'
        ea, eb = A.export().eval(), B.export().eval()
        if float((ea(x) - eb(x)).abs().max()) > 1e-5:
            return 'export: exported networks differ'
        d = _train_soft_costs(method, spec, A, B, rec['prefix'])
        if d is not None:
            ca, cb = d
            for n in ca:
                if abs(float(ca[n]) - float(cb[n])) > 1e-5 * max(1, abs(float(ca[n]))):
                    return f'train_cost: {n} {float(ca[n])} vs {float(cb[n])} (training mode, soft sampling)'
    return None


def _train_soft_costs(method, spec, A, B, pre):
    """MPS, deterministic samplers only: both models back in training mode, coefficients re-sampled (soft SoftMax, where the temperature
    matters), cost of each. None where not applicable."""
    if method != 'MPS' or spec.get('mps', {}).get('disable_sampling') or 'gumbel' in pre or 'hard' in pre:
        return None
    from plinio.methods.mps.nn.qtz import MPSBaseQtz
    out = []
    for w in (A, B):
        w.train()
        seen = set()
        saved = []
        for q in w.modules():
            if isinstance(q, MPSBaseQtz) and id(q) not in seen:
                seen.add(id(q))
                saved.append((q, q.theta_alpha))
                q.sample_alpha()
        out.append({n: st.scalar_of(w.get_cost(n)) if isinstance(w.get_cost(n), SymTensor) else w.get_cost(n) for n in cost_names(method)})
        for q, th in saved:
            q.theta_alpha = th
        w.eval()
    return out


def replay(rec):
    d = concrete_case(rec)
    return d is not None, str(d)[:500]       # any observable difference between the checkpointed and the restored model


def run_instance(p):
    res = InstanceResult(p['id'])
    method, spec, pre, wseed, selftest = p['method'], p['spec'], p['prefix'], p.get('wseed', 0), p.get('selftest', False)
    A0, shape = build(method, spec, wseed)
    B0, _ = build(method, spec, wseed)
    keysA = set(A0.state_dict().keys())

    def fn(ex):
        A, B = copy.deepcopy(A0), copy.deepcopy(B0)
        with SymMode():
            syms = symbolify(A, 'A', True, ex, sym_weights=(method != 'MPS'), conc_theta=bool(spec.get('mps', {}).get('disable_sampling')))
            symbolify(B, 'B', False)
            T = z3.Real('T')
            ex.assume(T >= Fraction(1, 20), T <= 20)
            x = SymTensor.fresh('x', (1,) + tuple(shape))
            apply_prefix(method, A, pre, SymTensor.from_array(np.array(T, dtype=object), torch.float32) if method == 'MPS' else st.SymScalar(T), x)
            if method == 'MPS':
                for v in x.elems():
                    ex.assume(v >= 0, v <= 8)
            A(x)                                  # caches outside the state_dict now hold symbolic values
            sd = A.state_dict()
            r = B.load_state_dict(sd, strict=False)
            keys = (list(r.missing_keys), list(r.unexpected_keys))
            ya, yb = A(x), B(x)
            ca = {n: st.scalar_of(A.get_cost(n)) for n in cost_names(method)}
            cb = {n: st.scalar_of(B.get_cost(n)) for n in cost_names(method)}
            sa, sb = str(_plain(A.summary())), str(_plain(B.summary()))
            err, yea, yeb = None, None, None
            try:
                ea, eb = A.export().eval(), B.export().eval()
                yea, yeb = ea(x), eb(x)
            except Exception as e_:
                err = f'{type(e_).__name__}: {e_}'[:200]
            tc = _train_soft_costs(method, spec, A, B, pre)
            if tc is not None:
                ca = dict(ca, **{'train:' + k: v for k, v in tc[0].items()})
                cb = dict(cb, **{'train:' + k: v for k, v in tc[1].items()})
        return syms, T, x, keys, (ya, yb), (ca, cb), (sa, sb), (yea, yeb), err
    ex = Explorer(timeout_ms=Q)
    n = 0
    for pc, (syms, T, x, keys, (ya, yb), (ca, cb), (sa, sb), (yea, yeb), err) in ex.explore(fn):
        n += 1
        if len(res.violations) >= 2:
            break
        problems = []
        unknowns = []
        allv = [v for s_ in syms.values() for v in s_.elems()] + x.elems()
        cons = [v * 8 == z3.ToReal(z3.Int(f'g!{i}')) for i, v in enumerate(allv)] + [v >= -4 for v in allv] + [v <= 4 for v in allv] + [T * 8 == z3.ToReal(z3.Int('gT'))]

        def cheap(bad_):
            # the solver could not decide the difference formula: evaluate it on a few float32-friendly models of the path; a model on which it is
            # true is a counterexample candidate (replayed on plain torch before it is reported), none found leaves the clause inconclusive
            for k_ in range(4):
                rk, mk = ex.check(*cons, *[v >= Fraction(k_, 4) for v in allv[:k_ + 1]], T != 1, timeout_ms=20000)
                if rk == 'sat' and z3.is_true(mk.eval(bad_, model_completion=True)):
                    return True
            return False
        if keys[0] or keys[1]:
            problems.append(('keys', f'missing {keys[0]} unexpected {keys[1]}', None))
        bad = st.any_differs(ya, yb) if tuple(ya.shape) == tuple(yb.shape) else True
        if selftest and n == 1:
            bad = st.any_differs(ya, yb + 1)
        if bad is not False:
            r, m = ex.check(bad, timeout_ms=20000) if bad is not True else ('sat', None)
            if r == 'unknown' and bad is not True and cheap(bad):
                r = 'sat'
            if r == 'unknown':
                unknowns.append('output equivalence unknown')
            elif r == 'sat':
                problems.append(('output', 'outputs of the checkpointed and the restored model differ', bad if bad is not True else None))
        for nme in ca:
            bad = st.e_ne(ca[nme], cb[nme])
            if bad is not False:
                r, m = ex.check(bad) if bad is not True else ('sat', None)
                if r == 'unknown' and bad is not True and cheap(bad):
                    r = 'sat'
                if r == 'unknown':
                    unknowns.append(f'cost {nme} equality unknown')
                elif r == 'sat':
                    problems.append(('train_cost' if nme.startswith('train:') else 'cost', f'{nme} cost differs after restore', bad if bad is not True else None))
                    break
        if sa != sb:
            problems.append(('summary', f'summary differs: {sa[:120]} vs {sb[:120]}', None))
        if err is not None:
            problems.append(('export', f'export raised {err}', None))
        elif yea is not None:
            bad = st.any_differs(yea, yeb) if tuple(yea.shape) == tuple(yeb.shape) else True
            if bad is not False:
                r, m = ex.check(bad) if bad is not True else ('sat', None)
                if r == 'sat':
                    problems.append(('export', 'exported networks differ', bad if bad is not True else None))
        res.oblige(not problems, 5)
        if not problems and unknowns:
            res.inconclusive += unknowns
            continue
        if not problems:
            if n <= 2:
                xv = [Fraction(i % 3 + 1, 2) for i in range(len(x.elems()))]
                d = concrete_case({'method': method, 'spec': spec, 'prefix': pre, 'wseed': wseed, 'T': '1/2', 'x': jsonable(xv), 'state': {}})
                res.sample({'method': method, 'prefix': pre, 'state_dict_tensors_symbolic': len(syms), 'plain_torch_difference_at_initial_state': d})
                if d is None:
                    res.validated += 1
                else:
                    res.errors.append(f'engine: restored model identical; plain torch: {d}')
            continue
        obs, text, bad = problems[0]
        # a float32-friendly model: state on a coarse grid
        r, m = ex.check(*([bad] if bad is not None else []), *cons, timeout_ms=30000)
        if r != 'sat' and bad is not None:
            # cheap search: evaluate the difference on a few grid models of the path
            for k_ in range(4):
                rk, mk = ex.check(*cons, *[v >= Fraction(k_, 4) for v in allv[:k_ + 1]], T != 1, timeout_ms=20000)
                if rk == 'sat' and z3.is_true(mk.eval(bad, model_completion=True)):
                    r, m = 'sat', mk
                    break
        if r != 'sat':
            r, m = ex.check(*([bad] if bad is not None else []))
        if r != 'sat':
            res.inconclusive.append('no model for the counterexample')
            continue
        state = {k.split('.', 1)[1] if k.startswith('.') else k: [st.model_value(m, v) for v in s_.elems()] for k, s_ in syms.items()}
        key = f'method:{method}|obs:{obs}|prefix:{pre}' + ('|selftest' if selftest else '')
        if any(v['key'] == key for v in res.violations):
            continue
        rec = {'method': method, 'spec': spec, 'prefix': pre, 'wseed': wseed, 'T': st.model_value(m, T), 'x': [st.model_value(m, v) for v in x.elems()], 'state': state,
               'observable': obs, 'key': key, 'what': f'{method} after prefix [{pre}] (T={st.model_value(m, T)}): {text}'}
        if selftest:
            res.violations.append(jsonable(rec))
            continue
        okr, msg = replay(jsonable(rec))
        if okr:
            rec['replay_msg'] = msg
            res.violations.append(jsonable(rec))
        else:
            res.errors.append(f'counterexample did not reproduce: {key}: {msg[:300]}')
    res.witnesses += 1
    res.witnesses_ok += 1 if ex.n_paths >= 1 else 0
    res.absorb(ex)
    return res


def _plain(d):
    if isinstance(d, dict):
        return {k: _plain(v) for k, v in d.items()}
    if isinstance(d, torch.Tensor):
        a = st.to_arr(d).reshape(-1)
        return [str(v) for v in a]
    if isinstance(d, (list, tuple)):
        return [_plain(v) for v in d]
    return d
