"""C19 - regularizers are non-negative penalties that vanish when constraints hold.

The real BaseRegularizer.__call__ and DUCCIO.__init__/__call__ run on a stub DNAS model whose get_cost(name) returns z3-real
scalars; targets, final strengths, task loss are z3 reals and the schedule position (epoch, n_epochs) z3 integers.
Every clause of the property is an unsat query; where the bilinear products epoch x strength stall z3 the schedule
position is enumerated (all 0 <= epoch <= n_epochs <= 50) and strengths/costs/targets stay symbolic.
"""
import itertools
import time
from fractions import Fraction

import numpy as np
import torch
import z3

import symtorch as st
from symtorch import Explorer, SymMode, SymScalar, SymTensor
from vlib.harness import InstanceResult, jsonable

PROPERTY = 'C19'
TECHNIQUE = 'symbolic execution of the real regularizers on z3-real costs/targets/strengths and integer schedule positions; each clause an unsat query (NRA, schedule enumerated when z3 stalls)'
FUNCTIONS_ENCODED = ['BaseRegularizer.__init__/__call__', 'DUCCIO.__init__', 'DUCCIO.__call__ (lazy strength initialisation, ramp, penalty sum)']
BOUNDS = {'quick': '1..3 metrics, n_epochs 1..50, 0 <= epoch <= n_epochs (symbolic, enumerated on NRA time-out), costs/targets/strengths arbitrary reals (strengths > 0), two consecutive calls on one instance; integer-typed target tensors (k=2)',
          'thorough': 'same with epochs beyond the schedule (epoch <= 2 n_epochs) and up to three consecutive calls; real PIT model for BaseRegularizer'}
OUTSIDE = ['float32 rounding/overflow of the products', 'derived strengths when a cost equals or is below its target at the first call (outside the "positive final strengths" precondition; reported as note)',
           'n_epochs = 0']
ASSUMPTIONS = ['final strengths > 0 (given) or task_loss > 0 and every cost above its target at the first call (derived)', 'n_epochs >= 1, epoch >= 0']
INSTANCE_TIMEOUT_S = {'quick': 900, 'thorough': 2400}


class Stub:
    """a DNAS look-alike: get_cost(name) -> scalar tensor"""

    def __init__(self, costs):
        self.costs = costs
        self.calls = 0
        # like a DNAS model with a dict of cost specifications; deliberately listed in ANOTHER order than the regularizer's targets
        # (the regularizer must pair costs and targets by name, never by position in the model's own dict)
        self.cost_specification = {n: None for n in reversed(list(costs))}

    def get_cost(self, n):
        self.calls += 1
        return self.costs[n]


def _t(v):
    return SymTensor.from_array(np.array(v if st.is_sym(v) else st.conc(v), dtype=object), torch.float32)


def _val(x):
    return st.scalar_of(x) if isinstance(x, torch.Tensor) else (x.t if isinstance(x, SymScalar) else st.conc(x))


def instances(tier, seed):
    out = [{'id': 'base', 'what': 'base'}, {'id': 'base_pit', 'what': 'base_pit'}]
    for k in (1, 2, 3):
        out.append({'id': f'duccio_value:{k}', 'what': 'value', 'k': k})
    # targets given as integer tensors (e.g. torch.tensor(787) parameters / operations), costs fractional
    out.append({'id': 'duccio_value:2:int_targets', 'what': 'value', 'k': 2, 'int_targets': True})
    out.append({'id': 'duccio_schedule', 'what': 'schedule'})
    out.append({'id': 'duccio_derived', 'what': 'derived'})
    return out


# ---------------------------------------------------------------------------------------------------------------------
NAMES = ('params', 'ops', 'latency')     # deliberately not in alphabetical order (the README's own pair is 'params', 'ops')


def concrete_duccio(rec):
    """plain-torch re-execution. rec: costs (list of lists per call), targets, strengths|task_loss, epochs (per call), n"""
    from plinio.regularizers import DUCCIO
    names = list(NAMES[:len(rec['targets'])])
    if rec.get('int_targets'):
        targets = {n: torch.tensor(int(Fraction(t))) for n, t in zip(names, rec['targets'])}
    else:
        targets = {n: torch.tensor(float(Fraction(t))) for n, t in zip(names, rec['targets'])}
    if rec.get('strengths') is not None:
        d = DUCCIO(targets, final_strengths=tuple(torch.tensor(float(Fraction(s))) for s in rec['strengths']))
    else:
        d = DUCCIO(targets, task_loss=torch.tensor(float(Fraction(rec['task_loss']))))
    vals = []
    for costs, e in zip(rec['costs'], rec['epochs']):
        m = Stub({n: torch.tensor(float(Fraction(c))) for n, c in zip(names, costs)})
        vals.append(float(d(m, int(e), int(rec['n']))))
    return vals


def replay(rec):
    import math
    if rec['observable'] == 'base':
        from plinio.regularizers import BaseRegularizer
        r = BaseRegularizer('m0', float(Fraction(rec['strength'])))
        v = float(r(Stub({'m0': torch.tensor(float(Fraction(rec['cost'])))})))
        want = float(Fraction(rec['strength'])) * float(Fraction(rec['cost']))
        return abs(v - want) > 1e-5 * max(1, abs(want)), f'value {v} expected {want}'
    vals = concrete_duccio(rec)
    obs = rec['observable']
    tol = 1e-5
    tg = [float(Fraction(t)) for t in rec['targets']]
    last_costs = [float(Fraction(c)) for c in rec['costs'][-1]]
    v = vals[-1]
    if obs == 'nonfinite':
        return not math.isfinite(v), f'values {vals}'
    if obs == 'negative':
        return v < -tol, f'values {vals}'
    if obs == 'zero_iff':
        allbelow = all(c <= t for c, t in zip(last_costs, tg))
        return (abs(v) <= 1e-12) != allbelow, f'value {v}, all costs at/below target: {allbelow}'
    if obs == 'increasing':
        return vals[-1] <= vals[-2] + 0 * tol, f'values {vals} (larger excess in the last call)'
    if obs in ('full_strength_value', 'initial_strength_value'):
        st_ = [float(Fraction(x)) for x in rec['strengths']]
        want = sum(si * max(0.0, c - t) for si, c, t in zip(st_, last_costs, tg)) / (100.0 if obs.startswith('initial') else 1.0)
        return abs(v - want) > 1e-4 * max(1.0, abs(want)), f'value {v}, sum of own-strength x excess {want}'
    if obs.startswith('sched'):
        s = float(Fraction(rec['strengths'][0]))
        e, n = int(rec['epochs'][-1]), int(rec['n'])
        eff = v   # excess is exactly 1
        if obs == 'sched_start':
            return abs(eff - s / 100) > tol * s, f'eff(0)={eff}, s/100={s / 100}'
        if obs == 'sched_mono':
            return vals[-1] < vals[-2] - tol * s, f'eff({rec["epochs"][-2]})={vals[-2]} > eff({e})={vals[-1]}'
        if obs == 'sched_reach':
            return abs(eff - s) > tol * s, f'eff({e}/{n})={eff}, final {s}'
        if obs == 'sched_exceed':
            return eff > s * (1 + tol), f'eff({e}/{n})={eff} exceeds final {s}'
        if obs == 'sched_early':
            return eff >= s * (1 - tol), f'eff({e}/{n})={eff} reaches final {s} before half the schedule'
    return False, f'unknown observable {obs}'


def _viol(res, rec, what, selftest=False):
    rec = jsonable(rec)
    rec['what'] = what
    if selftest:
        rec['key'] += '|selftest'
        res.violations.append(rec)
        return
    try:
        ok, msg = replay(rec)
    except Exception as e:
        ok, msg = False, f'replay raised {type(e).__name__}: {e}'
    rec['replay_msg'] = msg
    if ok:
        if not any(v['key'] == rec['key'] for v in res.violations):
            res.violations.append(rec)
    else:
        res.errors.append(f'counterexample did not reproduce: {what}: {msg}')


def run_instance(p):
    res = InstanceResult(p['id'])
    selftest = p.get('selftest', False)
    tier = p.get('tier', 'quick')
    {'base': _run_base, 'base_pit': _run_base_pit, 'value': _run_value, 'schedule': _run_schedule, 'derived': _run_derived}[p['what']](res, p, tier, selftest)
    return res


def _run_base(res, p, tier, selftest):
    from plinio.regularizers import BaseRegularizer

    def fn(ex):
        with SymMode():
            c, s = z3.Real('c'), z3.Real('s')
            r = BaseRegularizer('m0', SymScalar(s))
            v = _val(r(Stub({'m0': _t(c)})))
        return c, s, v
    ex = Explorer(timeout_ms=30000)
    for pc, (c, s, v) in ex.explore(fn):
        want = c * s if not selftest else c * s + 1
        r, m = ex.must(st.e_ne(v, want))
        res.oblige(r == 'unsat')
        res.sample({'regularizer': 'BaseRegularizer', 'value_term': str(v)})
        if r == 'sat':
            rec = {'observable': 'base', 'cost': st.model_value(m, c), 'strength': st.model_value(m, s), 'key': 'base|value!=strength*cost'}
            _viol(res, rec, 'BaseRegularizer value differs from strength x cost', selftest)
        r, _ = ex.must(v > 5)
        res.witnesses += 1
        res.witnesses_ok += 1 if r == 'sat' else 0
    res.absorb(ex)


def _run_base_pit(res, p, tier, selftest):
    """BaseRegularizer on a real PIT model with symbolic masks: equals strength x model.get_cost(name)"""
    from plinio.regularizers import BaseRegularizer
    from plinio.cost import params, ops
    from vlib import pitlib
    pit, model, shape = pitlib.make_pit({'fam': 'T1', 'K': 3, 'C': 2}, 0, cost={'params': params, 'ops': ops})

    def fn(ex):
        pairs, sy = pitlib.fresh_masks(pit, nonneg=True, ex=ex)
        with SymMode(), st.swapped_params(pairs):
            out = []
            for name in ('params', 'ops'):
                r = BaseRegularizer(name, 0.25)
                out.append((_val(r(pit)), _val(pit.get_cost(name))))
        return out
    ex = Explorer(timeout_ms=30000)
    for pc, out in ex.explore(fn):
        for v, c in out:
            r, m = ex.must(st.e_ne(v, st.e_mul(c, Fraction(1, 4))))
            res.oblige(r == 'unsat')
            if r == 'sat' and not selftest:
                res.violations.append({'key': 'base_pit|value!=strength*cost', 'what': 'BaseRegularizer on PIT differs from strength x get_cost'})
    if selftest:
        res.violations.append({'key': 'selftest', 'what': 'n/a'})
    res.absorb(ex)


def _mk_duccio(ex, k, derived=False, int_targets=False):
    from plinio.regularizers import DUCCIO
    names = list(NAMES[:k])
    if int_targets:
        t = [z3.Int(f't{i}') for i in range(k)]
        targets = {n: SymTensor.from_array(np.array(ti, dtype=object), torch.int64) for n, ti in zip(names, t)}
    else:
        t = [z3.Real(f't{i}') for i in range(k)]
        targets = {n: _t(ti) for n, ti in zip(names, t)}
    if derived:
        tl = z3.Real('task_loss')
        ex.assume(tl > 0)
        return DUCCIO(targets, task_loss=_t(tl)), names, t, tl
    s = [z3.Real(f's{i}') for i in range(k)]
    for si in s:
        ex.assume(si > 0)
    return DUCCIO(targets, final_strengths=tuple(_t(si) for si in s)), names, t, s


def _run_value(res, p, tier, selftest):
    """finite, >= 0, == 0 iff every cost <= target, strictly increasing in each excess (schedule position enumerated/symbolic)"""
    k = p['k']
    positions = [(0, 1), (1, 1), (0, 7), (3, 7), (4, 7), (7, 7), (25, 50), (1, 50)]
    if tier == 'thorough':
        positions += [(e, n) for n in (2, 3, 5, 10) for e in range(0, n + 1)]
    for (e, n) in positions:
        def fn(ex):
            with SymMode():
                d, names, t, s = _mk_duccio(ex, k, int_targets=bool(p.get('int_targets')))
                c = [z3.Real(f'c{i}') for i in range(k)]
                try:
                    v1 = _val(d(Stub({nm: _t(ci) for nm, ci in zip(names, c)}), e, n))
                except st.EngineError as err:
                    if 'NaN' in str(err) or '0/0' in str(err) or 'infinite' in str(err):
                        # a concrete NaN/inf produced by the code under analysis: the value is not finite for every input
                        return t, s, c, None, None, None, 'NAN'
                    raise
                # second call on the same instance with a larger excess on metric 0 (and the same elsewhere)
                c0b = z3.Real('c0b')
                v2 = _val(d(Stub({nm: _t(ci) for nm, ci in zip(names, [c0b] + c[1:])}), e, n))
                guards = list(ex.guards)
            return t, s, c, c0b, v1, v2, guards
        ex = Explorer(timeout_ms=30000)
        for pc, (t, s, c, c0b, v1, v2, guards) in ex.explore(fn):
            if guards == 'NAN':
                res.oblige(False)
                r, m = ex.must()
                rec = {'observable': 'nonfinite', 'targets': [st.model_value(m, x) for x in t], 'strengths': [st.model_value(m, x) for x in s],
                       'costs': [[st.model_value(m, ci) for ci in c]], 'epochs': [e], 'n': n, 'key': f'duccio|nonfinite|k={k}'}
                _viol(res, rec, f'DUCCIO value is NaN/inf with {k} metrics at epoch {e}/{n}', selftest)
                continue
            allbelow = z3.And([ci <= ti for ci, ti in zip(c, t)])
            checks = [('negative', st.e_lt(v1, 0), 1), ('zero_iff', z3.Xor(st.lift(st.e_eq(v1, 0), 'b'), allbelow), 1),
                      ('increasing', z3.And(c0b > c[0], c[0] >= t[0], st.lift(st.e_le(v2, v1), 'b')), 2)]
            # each metric is weighted by ITS OWN strength: the full one from half the schedule on, 1% of it at epoch 0
            relu = [z3.If(ci > ti, ci - ti, 0) for ci, ti in zip(c, t)]
            if 2 * e >= n:
                checks.append(('full_strength_value', st.e_ne(v1, z3.Sum([si * ri for si, ri in zip(s, relu)])), 1))
            elif e == 0:
                checks.append(('initial_strength_value', st.e_ne(v1, z3.Sum([si * ri / 100 for si, ri in zip(s, relu)])), 1))
            if selftest:
                checks.append(('increasing', z3.And(c0b > c[0], st.lift(st.e_le(v2, v1), 'b')), 2))
            checks = [('nonfinite', g, 1) for g in guards] + checks
            nog = [z3.Not(g) for g in guards]
            for name, bad, ncalls in checks:
                r, m = ex.check(bad, *([] if name == 'nonfinite' else nog))
                if r == 'unknown':
                    res.inconclusive.append(f'value k={k} pos={e}/{n} {name}: unknown')
                    continue
                res.oblige(r == 'unsat')
                if r == 'sat':
                    cv = [st.model_value(m, ci) for ci in c]
                    costs = [cv] if ncalls == 1 else [cv, [st.model_value(m, c0b)] + cv[1:]]
                    rec = {'observable': name, 'targets': [st.model_value(m, x) for x in t], 'strengths': [st.model_value(m, x) for x in s],
                           'costs': costs, 'epochs': [e] * ncalls, 'n': n, 'key': f'duccio|{name}|k={k}' + ('|int_targets' if p.get('int_targets') else ''), 'int_targets': bool(p.get('int_targets'))}
                    _viol(res, rec, f'DUCCIO {name} violated with {k} metrics at epoch {e}/{n}', selftest)
            r, m = ex.must(st.e_gt(v1, 0))
            res.witnesses += 1
            res.witnesses_ok += 1 if r == 'sat' else 0
            if r == 'sat' and (e, n) == (3, 7):
                rec = {'targets': [st.model_value(m, x) for x in t], 'strengths': [st.model_value(m, x) for x in s],
                       'costs': [[st.model_value(m, ci) for ci in c]], 'epochs': [e], 'n': n, 'int_targets': bool(p.get('int_targets'))}
                res.sample(dict(rec, value=st.model_value(m, v1)))
                got = concrete_duccio(jsonable(rec))[0]
                want = float(st.model_value(m, v1))
                if abs(got - want) <= 1e-4 * max(1.0, abs(want)):
                    res.validated += 1
                else:
                    res.notes.append(f'concolic difference (float32 rounding of large solver values?): engine {want} torch {got}')
        res.absorb(ex)


def _run_schedule(res, p, tier, selftest):
    """effective strength vs epoch, observed through the public API with one metric whose excess is exactly 1"""
    from plinio.regularizers import DUCCIO

    def harness(e_fixed=None, n_fixed=None):
        def fn(ex):
            with SymMode():
                s = z3.Real('s')
                ex.assume(s > 0)
                if n_fixed is None:
                    n, e = z3.Int('n'), z3.Int('e')
                    ex.assume(n >= 1, n <= 50, e >= 0, e <= (n if tier == 'quick' else 2 * n))
                    nn, ee, ee1 = SymScalar(n), SymScalar(e), SymScalar(e + 1)
                else:
                    n, e = z3.IntVal(n_fixed), z3.IntVal(e_fixed)
                    nn, ee, ee1 = n_fixed, e_fixed, e_fixed + 1
                d = DUCCIO({'m0': _t(Fraction(3))}, final_strengths=(_t(s),))
                model = Stub({'m0': _t(Fraction(4))})
                eff = _val(d(model, ee, nn))
                eff1 = _val(d(model, ee1, nn))
                guards = list(ex.guards)
            return s, n, e, eff, eff1, guards
        return fn

    def obligations(s, n, e, eff, eff1, guards):
        obs = [('sched_start', z3.And(e == 0, st.lift(st.e_ne(eff, s / 100), 'b')), 1),
               ('sched_mono', st.lift(st.e_lt(eff1, eff), 'b'), 2),
               ('sched_reach', z3.And(2 * e >= n, st.lift(st.e_ne(eff, s), 'b')), 1),
               ('sched_exceed', st.lift(st.e_gt(eff, s), 'b'), 1),
               ('sched_early', z3.And(2 * e < n, st.lift(st.e_ge(eff, s), 'b')), 1)]
        if selftest:
            obs.append(('sched_early', z3.And(2 * e <= n, st.lift(st.e_ge(eff, s), 'b')), 1))
        nog = z3.And([z3.Not(g) for g in guards]) if guards else True
        obs = [(a, z3.And(b, nog) if guards else b, c) for a, b, c in obs]
        obs = [('nonfinite', g, 1) for g in guards] + obs
        return obs

    def run(fn, label):
        unknown = False
        ex = Explorer(timeout_ms=20000)
        for pc, (s, n, e, eff, eff1, guards) in ex.explore(fn):
            for name, bad, ncalls in obligations(s, n, e, eff, eff1, guards):
                r, m = ex.check(bad)
                if r == 'unknown':
                    unknown = True
                    continue
                res.oblige(r == 'unsat')
                if r == 'sat':
                    ev, nv = m.eval(e, True).as_long(), m.eval(n, True).as_long()
                    rec = {'observable': name, 'targets': [3], 'strengths': [st.model_value(m, s)], 'costs': [[4]] * ncalls,
                           'epochs': [ev] if ncalls == 1 else [ev, ev + 1], 'n': nv, 'key': f'duccio|{name}'}
                    _viol(res, rec, f'DUCCIO schedule: {name} at epoch {ev}/{nv}', selftest)
            if label == 'sym':
                r, m = ex.must()
                res.sample({'schedule': 'symbolic', 'eff_term': str(eff)[:300]})
        res.absorb(ex)
        return unknown

    if run(harness(), 'sym'):
        res.notes.append('schedule: all-symbolic (epoch x strength, NRA) query unknown in 20 s -> schedule positions enumerated for n_epochs 1..50')
        for n in range(1, 51):
            for e in range(0, (n if tier == 'quick' else 2 * n) + 1):
                if run(harness(e, n), 'enum'):
                    res.inconclusive.append(f'schedule: unknown at epoch {e}/{n}')
    res.witnesses += 1
    res.witnesses_ok += 1 if res.obligations > 0 else 0


def _run_derived(res, p, tier, selftest):
    """strengths derived from task_loss at the first call: positive and finite when every cost starts above its target;
    later calls on the same instance behave like the given-strength case (zero iff below target, non-negative)"""
    for k, first in ((1, 'above'), (2, 'above'), (2, 'first_within')):
        for (e, n) in ((0, 1), (1, 4), (2, 4), (4, 4)):
            def fn(ex):
                with SymMode():
                    d, names, t, tl = _mk_duccio(ex, k, derived=True)
                    c0 = [z3.Real(f'c{i}') for i in range(k)]
                    for i_, (ci, ti) in enumerate(zip(c0, t)):
                        # 'first_within': the first listed metric already meets its target at the first call (its derived strength is then 0 in the
                        # documented rule, so the statement - which is about positive strengths - says nothing; a derivation that nevertheless ends
                        # up with positive strengths only must still obey it)
                        ex.assume(ci < ti if (first == 'first_within' and i_ == 0) else ci > ti)
                    v1 = _val(d(Stub({nm: _t(ci) for nm, ci in zip(names, c0)}), e, n))
                    fs = [_val(x) for x in d.final_strengths]
                    c1 = [z3.Real(f'd{i}') for i in range(k)]
                    v2 = _val(d(Stub({nm: _t(ci) for nm, ci in zip(names, c1)}), e, n))
                    guards = list(ex.guards)
                return t, tl, c0, c1, v1, v2, fs, guards
            ex = Explorer(timeout_ms=30000)
            for pc, (t, tl, c0, c1, v1, v2, fs, guards) in ex.explore(fn):
                allbelow = z3.And([ci <= ti for ci, ti in zip(c1, t)])
                checks = [('strength_nonpositive', z3.Or([st.lift(st.e_le(f, 0), 'b') for f in fs])),
                          ('negative', st.lift(st.e_lt(v2, 0), 'b')), ('first_call_nonpositive', st.lift(st.e_le(v1, 0), 'b')),
                          ('zero_iff', z3.Xor(st.lift(st.e_eq(v2, 0), 'b'), allbelow))]
                nog = [z3.Not(g) for g in guards]
                checks = [('nonfinite', g) for g in guards] + checks
                pre = []
                if first == 'first_within':
                    # precondition of the statement: every derived strength is positive
                    pre = [st.lift(st.e_gt(f, 0), 'b') for f in fs]
                    checks = [c_ for c_ in checks if c_[0] in ('negative', 'zero_iff')]
                for name, bad in checks:
                    r, m = ex.check(bad, *pre, *([] if name == 'nonfinite' else nog))
                    if r == 'unknown':
                        res.inconclusive.append(f'derived k={k} {e}/{n} {name}: unknown')
                        continue
                    res.oblige(r == 'unsat')
                    if r == 'sat':
                        obs = name if name in ('negative', 'zero_iff', 'nonfinite') else 'zero_iff'
                        rec = {'observable': obs, 'targets': [st.model_value(m, x) for x in t], 'strengths': None, 'task_loss': st.model_value(m, tl),
                               'costs': [[st.model_value(m, x) for x in c0], [st.model_value(m, x) for x in c1]], 'epochs': [e, e], 'n': n,
                               'key': f'duccio_derived|{name}|k={k}' + ('|first_metric_within_target' if first == 'first_within' else '')}
                        if name in ('strength_nonpositive', 'first_call_nonpositive'):
                            rec['costs'] = [rec['costs'][0]]
                            rec['epochs'] = [e]
                        _viol(res, rec, f'DUCCIO (derived strengths) {name} with {k} metrics at epoch {e}/{n}', selftest)
                if selftest:
                    res.violations.append({'key': 'selftest', 'what': 'n/a'})
            res.absorb(ex)
    res.notes.append('derived strengths with a cost equal to (division by zero) or below (strength 0) its target at the first call are outside the precondition "positive final strengths"')
