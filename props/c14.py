"""C14 - integer (MATCH / MAUPITI) layers reproduce their fake-quantised counterparts.

(a) binary_search(div, low, high, x): x is a z3 real, the real recursive function runs on it (the engine forks on every comparison);
    on every path the result must equal clamp(ceil(x / div), low, high).
(b) per layer: after integerize_arch, the INTEGER ACTIVATIONS entering a layer are z3 integers in the declared range; the integer layer runs
    on them and its fake-quantised counterpart on the real tensor they stand for (out_quantizer.dequantize = False); one obligation PER OUTPUT
    ELEMENT:  |int_layer(X) - q_layer(X * s_x)_int| <= 1 + |acc|max * |scale / 2^shift - s_w s_x / s_y|;  last layer: out * s_x s_w == logits (MATCH) /
    out == logits (MAUPITI) up to float32 rounding of the constants.
(c) stored quantities (concrete observations on every constructed layer): weights integral in the signed range, add_bias integral with
    |bias * scale| < 2^31, scale integral below 2^(scale_bit-1), shift within range; construction succeeds with and without bias and with
    dilation on either spatial axis.
"""
import copy
import itertools
import time
from fractions import Fraction

import numpy as np
import torch
import torch.nn as nn
import z3

import symtorch as st
from symtorch import Explorer, SymMode, SymScalar, SymTensor
from vlib.harness import InstanceResult, jsonable

PROPERTY = 'C14'
TECHNIQUE = 'symbolic execution of the real integer layers and their fake-quantised counterparts on z3 integer activations (one unsat query per output element); binary_search on a z3 real against clamp(ceil(x/div)); concrete range observations of stored tensors'
FUNCTIONS_ENCODED = ['binary_search', 'MATCHConv2d/MATCHLinear.__init__/forward/_integer_approximation (runs natively at construction)', 'MAUPITIConv2d/MAUPITILinear.__init__/forward',
                     'QuantConv2d/QuantLinear.forward', 'PACTActSTE.forward', 'integerize_arch (graph rewrite natively)']
BOUNDS = {'quick': 'binary_search: div = 2^-s (s = 0..6), ranges [1, H] with H in {1,2,3,8,33,64}; nets: Conv2d(1,2,2)-ReLU-flatten-Linear(8,2) on 3x3 inputs and Linear-ReLU-Linear, bits {8,4}, MATCH (24,24) and MAUPITI; MATCH also with the input at another precision than the layer outputs (4 vs 8) and scale_bit 16 / 12 with the default shift range; large / mixed biases; construction variants bias on/off, dilation (2,1)/(1,2); integer network built right after a checkpoint with other weights / clipping values was loaded (no forward pass in between); nets whose only large biases are negative',
          'thorough': 'bits {2,4,8}, MATCH (16,32) options, fully-convolutional final layer, 2 channels depthwise'}
OUTSIDE = ['ONNX export (package missing)', 'CUDA', 'the DIANA backend', 'whole-network error accumulation (per-layer comparison on the integer network\'s own activations, as the statement prescribes)']
ASSUMPTIONS = ['integer activations within the declared range of the layer input', 'weights, biases and scales are concrete (those of a tiny trained-like model with dyadic weights); _integer_approximation runs concretely']
INSTANCE_TIMEOUT_S = {'quick': 1800, 'thorough': 3600}
Q = 60000


class NetC(nn.Module):
    def __init__(self, bias=True, dil=(1, 1), k=(2, 2), big_bias=False, HW=3, relu_flat=False):
        super().__init__()
        self.relu_flat = relu_flat      # the ReLU is applied after the flatten (it does not directly follow the convolution in the graph)
        self.c0 = nn.Conv2d(1, 2, k, dilation=dil, bias=bias)
        oh, ow = HW - dil[0] * (k[0] - 1), HW - dil[1] * (k[1] - 1)
        self.fc = nn.Linear(2 * oh * ow, 2, bias=bias)
        self.big_bias = big_bias

    def forward(self, x):
        if self.relu_flat:
            return self.fc(torch.relu(self.c0(x).flatten(1)))
        return self.fc(torch.relu(self.c0(x)).flatten(1))


class NetL(nn.Module):
    def __init__(self, bias=True, big_bias=False):
        super().__init__()
        self.fc0 = nn.Linear(3, 3, bias=bias)
        self.fc1 = nn.Linear(3, 2, bias=bias)
        self.big_bias = big_bias

    def forward(self, x):
        return self.fc1(torch.relu(self.fc0(x)))


class NetF(nn.Module):
    """fully convolutional: the final (logit) layer is a convolution"""

    def __init__(self, bias=True):
        super().__init__()
        self.c0 = nn.Conv2d(1, 2, 2, bias=bias)
        self.c1 = nn.Conv2d(2, 2, 2, bias=bias)

    def forward(self, x):
        return self.c1(torch.relu(self.c0(x))).flatten(1)


def instances(tier, seed):
    out = []
    for s in range(0, 7):
        out.append({'id': f'binary_search:div=2^-{s}', 'what': 'bs', 's': s})
    nets = [('C', {}), ('L', {}), ('C', {'big_bias': True}), ('L', {'big_bias': True}), ('F', {}), ('C', {'big_bias': 'neg'}), ('L', {'big_bias': 'neg'}), ('C', {'relu_flat': True})]
    bits = [8, 4] if tier == 'quick' else [8, 4, 2]
    for be in ('MATCH', 'MAUPITI'):
        for net, kw in nets:
            for b in bits:
                if be == 'MAUPITI' and (kw.get('big_bias') or net == 'F'):
                    continue
                if kw.get('relu_flat') and b != 8:
                    continue
                opts = [{}] + ([{'scale_bit': 16, 'shift_pos': 32}] if (tier == 'thorough' and be == 'MATCH') else [])
                if be == 'MATCH' and not kw and net in ('C', 'F'):
                    # input activations at another precision than the layer outputs; non-default scale widths with the default shift range
                    opts += [{'in_bits': 4 if b == 8 else 8}]
                    if b == 8 and net == 'C':
                        opts += [{'scale_bit': 16}, {'scale_bit': 12}]
                if not kw and net in ('C', 'L') and b == 8:
                    opts += [{'restored': True}]
                if be == 'MATCH' and not kw and net in ('C', 'L') and b == 8:
                    opts += [{'clip': 0.5}]
                for o in opts:
                    out.append({'id': f'{be}:{net}{kw}:bits={b}:{o}', 'what': 'net', 'backend': be, 'net': net, 'kw': kw, 'bits': b, 'opts': o, 'wseed': seed})
    for be in ('MATCH', 'MAUPITI'):
        for name, kw in (('bias', {}), ('nobias', {'bias': False}), ('dil_axis0', {'dil': (2, 1), 'k': (2, 1)}), ('dil_axis1', {'dil': (1, 2), 'k': (1, 2)})):
            out.append({'id': f'{be}:construct:{name}', 'what': 'construct', 'backend': be, 'kw': kw, 'name': name})
    return out


# ---------------------------------------------------------------------------------------------------------------------
def _export(net, kw, bits, opts, wseed=0):
    """-> (exported fake-quantised network after one forward pass, input shape, the batch it was run on)"""
    from plinio.methods import MPS
    from plinio.methods.mps import get_default_qinfo
    torch.manual_seed(wseed)
    kw = dict(kw)
    for k in ('dil', 'k'):
        if k in kw:
            kw[k] = tuple(kw[k])
    model = {'C': NetC, 'L': NetL, 'F': NetF}[net](**kw)
    rng = np.random.RandomState(wseed + 1)
    with torch.no_grad():
        for n, p in model.named_parameters():
            vals = rng.randint(-8, 9, size=p.numel()).astype('float32') / 8
            vals[vals == 0] = 0.125
            if n.endswith('bias') and getattr(model, 'big_bias', False):
                big = [-30.0, 0.125, -9.0, 0.25] if model.big_bias == 'neg' else [9.0, 0.125, 30.0, -0.25]       # 'neg': only negative biases are large
                vals = np.array(big[:p.numel()] + [0.5] * max(0, p.numel() - 4), dtype='float32')
            p.copy_(torch.tensor(vals).reshape(p.shape))
    shape = (3,) if net == 'L' else (1, 3, 3)
    qinfo = get_default_qinfo((bits,), (bits,))
    in_bits = opts.get('in_bits')
    if in_bits:
        # mixed activation precisions: the network input is quantised at another bit-width than the layers' outputs
        qinfo['input_default']['search_precision'] = (in_bits,)
    m = MPS(model, input_shape=shape, qinfo=qinfo)
    m.eval()
    if opts.get('clip'):
        # trained (tight) clipping thresholds of the hidden activations: large requantisation scales, pre-activations far outside the clip range
        from plinio.methods.mps.quant.quantizers import PACTAct
        with torch.no_grad():
            for n_, mod in m.named_modules():
                if isinstance(mod, PACTAct) and 'input_quantizer' not in n_:
                    mod.clip_val.fill_(float(opts['clip']))
    x0 = torch.rand(2, *shape)
    m(x0)
    e = m.export().eval()
    e(x0)
    return e, shape, x0


def _build(net, kw, bits, backend, opts, wseed=0):
    from plinio.methods.mps.quant.backends import Backend, integerize_arch
    opts = dict(opts)
    e, shape, x0 = _export(net, kw, bits, opts, wseed)
    opts.pop('in_bits', None)
    opts.pop('clip', None)
    if opts.pop('restored', False):
        # a checkpoint of the same architecture with other weights / clipping values is loaded into the exported network and the
        # network is integerised straight away: everything the integer layers store must come from the loaded state, not from
        # values cached by the last fake-quantised forward pass
        e2, _, _ = _export(net, kw, bits, opts, wseed + 11)
        with torch.no_grad():
            for mod in e2.modules():
                cv = getattr(mod, 'clip_val', None)
                if isinstance(cv, torch.Tensor):
                    cv.mul_(1.5)
        e.load_state_dict(e2.state_dict())
    be = Backend.MATCH if backend == 'MATCH' else Backend.MAUPITI
    i = integerize_arch(copy.deepcopy(e), be, backend_kwargs=dict(opts))
    return e, i, shape


def _pairs(e, i):
    from plinio.methods.mps.quant.nn import QuantConv2d, QuantLinear
    out = []
    for n, qm in e.named_modules():
        if isinstance(qm, (QuantConv2d, QuantLinear)):
            out.append((n, qm, i.get_submodule(n)))
    return out


def stored_problem(name, ic, backend, bits):
    """(c) ranges of the stored tensors of one integer layer"""
    w = ic.weight.detach()
    if not torch.equal(w, torch.round(w)):
        return f'{name}: weights are not integers'
    if float(w.min()) < -2 ** (bits - 1) or float(w.max()) > 2 ** (bits - 1) - 1:
        return f'{name}: weights outside the signed {bits}-bit range [{float(w.min())}, {float(w.max())}]'
    last = getattr(ic, 'last_layer', getattr(ic, 'skip_requant', False))
    sc = getattr(ic, 'scale', None)
    if sc is not None and not last:
        sc = sc.detach().reshape(-1)
        if not torch.equal(sc, torch.round(sc)):
            return f'{name}: scale is not an integer'
        sb = getattr(ic, 'scale_bit', 24)
        if float(sc.max()) > 2 ** (sb - 1) or float(sc.min()) < 1:
            return f'{name}: scale {sc.tolist()} outside [1, 2^{sb - 1}]'
        sh = int(ic.shift.reshape(-1)[0])
        if sh < 0 or sh >= getattr(ic, 'shift_pos', 32):
            return f'{name}: shift {sh} outside the declared range'
    ab = getattr(ic, 'add_bias', None)
    if ab is None:
        ab = getattr(ic, 'bias', None) if last else None
    if ab is not None:
        ab = ab.detach().reshape(-1).double()
        if not torch.equal(ab, torch.round(ab)):
            return f'{name}: stored bias {ab.tolist()} is not an integer'
        if float(ab.abs().max()) > 2 ** 31:
            return f'{name}: stored (scaled) bias {ab.tolist()} exceeds 32 bits'
    return None


def concrete_layer_diff(rec):
    """plain torch re-execution of one layer pair on concrete integer activations"""
    e, i, shape = _build(rec['net'], rec['kw'], rec['bits'], rec['backend'], rec['opts'], rec.get('wseed', 0))
    for n, qc, ic in _pairs(e, i):
        if n != rec['layer']:
            continue
        X = torch.tensor([float(v) for v in rec['x']], dtype=torch.float32).reshape(rec['xshape'])
        off = 0 if rec['backend'] == 'MATCH' else 2 ** (rec['bits'] - 1)
        with torch.no_grad():
            yi = ic(X)
            xf = (X + off) * qc.in_quantizer.scale
            last = type(qc.out_quantizer).__name__ == 'DummyQuantizer'
            if last:
                yq = qc(xf)
                if rec['backend'] == 'MATCH':
                    yi = yi * (ic.s_x * ic.s_w.reshape(1, -1) if yi.dim() == 2 else ic.s_x * ic.s_w.reshape(1, -1, 1, 1))
                return (yi - yq).abs().max().item(), f'int={yi.reshape(-1).tolist()} fq={yq.reshape(-1).tolist()}'
            qc.out_quantizer.dequantize = False
            yq = qc(xf)
            qc.out_quantizer.dequantize = True
            return (yi - (yq - off)).abs().max().item(), f'int={yi.reshape(-1).tolist()} fq_int={(yq - off).reshape(-1).tolist()}'
    return None, 'layer not found'


def concrete_wiring(rec):
    e, i, shape = _build(rec['net'], rec['kw'], rec['bits'], rec['backend'], rec['opts'], rec.get('wseed', 0))
    pairs = {n: ic for n, qc, ic in _pairs(e, i)}
    cap = {}

    def out_hook(m_, inp, out):
        if len(rec['y']) != out.numel():
            return None
        return torch.tensor([float(v) for v in rec['y']], dtype=torch.float32).reshape(tuple(out.shape))

    def in_hook(m_, inp):
        cap['x'] = inp[0].detach().reshape(-1).tolist()
    h0, h1 = pairs[rec['frm']].register_forward_hook(out_hook), pairs[rec['to']].register_forward_pre_hook(in_hook)
    with torch.no_grad():
        i(torch.zeros(1, *shape))
    h0.remove()
    h1.remove()
    return cap.get('x')


def replay(rec):
    if rec.get('observable') == 'wiring':
        x = concrete_wiring(rec)
        return x is None or [float(v) for v in x] != [float(v) for v in rec['y']], f'emitted {rec["y"]} received {x}'
    if rec['observable'] == 'binary_search':
        from plinio.methods.mps.quant.backends.utils import binary_search
        x, div = float(Fraction(rec['x'])), 2.0 ** -rec['s']
        r = binary_search(div, rec['low'], rec['high'], x)
        import math
        want = min(max(math.ceil(x / div), rec['low']), rec['high'])
        return r != want, f'binary_search({div}, {rec["low"]}, {rec["high"]}, {x}) = {r}, clamp(ceil(x/div)) = {want}'
    if rec['observable'] in ('construct', 'stored'):
        try:
            e, i, shape = _build(rec['net'], rec['kw'], rec['bits'], rec['backend'], rec['opts'], rec.get('wseed', 0))
        except Exception as ex_:
            return rec['observable'] == 'construct', f'{type(ex_).__name__}: {ex_}'[:300]
        for n, qc, ic in _pairs(e, i):
            p = stored_problem(n, ic, rec['backend'], rec['bits'])
            if p:
                return rec['observable'] == 'stored', p
        return False, 'constructed, stored tensors in range'
    d, info = concrete_layer_diff(rec)
    return d is not None and d > rec['tol'] + 1e-3, f'max |int - fq| = {d} (tolerance {rec["tol"]}); {info}'[:500]


def run_instance(p):
    res = InstanceResult(p['id'])
    selftest = p.get('selftest', False)
    {'bs': _run_bs, 'net': _run_net, 'construct': _run_construct}[p['what']](res, p, selftest)
    return res


def _viol(res, rec, what, selftest):
    rec = jsonable(rec)
    rec['what'] = what
    if selftest:
        rec['key'] += '|selftest'
        res.violations.append(rec)
        return
    if any(v['key'] == rec['key'] for v in res.violations):
        return
    try:
        ok, msg = replay(rec)
    except Exception as e:
        ok, msg = False, f'replay raised {type(e).__name__}: {e}'
    rec['replay_msg'] = msg[:500]
    if ok:
        res.violations.append(rec)
    else:
        res.errors.append(f'counterexample did not reproduce: {what}: {msg[:400]}')


def _run_bs(res, p, selftest):
    from plinio.methods.mps.quant.backends.utils import binary_search
    s = p['s']
    div = Fraction(1, 2 ** s)
    for H in (1, 2, 3, 8, 33, 64):
        def fn(ex):
            x = z3.Real('x')
            ex.assume(x >= -1, x <= H * div + 1)
            r = binary_search(float(div), 1, H, SymScalar(x))
            return x, r
        ex = Explorer(timeout_ms=Q)
        for pc, (x, r) in ex.explore(fn):
            q = z3.Int('q')      # q = ceil(x / div)
            want = z3.If(q < 1, 1, z3.If(q > H, H, q))
            if selftest:
                want = want + 1
            rr, m = ex.must(z3.ToReal(q - 1) * z3.RealVal(str(div)) < x, x <= z3.ToReal(q) * z3.RealVal(str(div)), want != r)
            res.oblige(rr == 'unsat')
            if rr == 'sat':
                xv = st.model_value(m, x)
                _viol(res, {'observable': 'binary_search', 's': s, 'low': 1, 'high': H, 'x': xv, 'key': f'binary_search|div=2^-{s}|H={H}'},
                      f'binary_search(2^-{s}, 1, {H}, {xv}) = {r}', selftest)
        res.absorb(ex)
        res.sample({'binary_search': f'div=2^-{s}, low=1, high={H}', 'paths': ex.n_paths})
    res.witnesses += 1
    res.witnesses_ok += 1 if res.paths > 6 else 0


def _run_construct(res, p, selftest):
    rec = {'net': 'C', 'kw': dict(p['kw']), 'bits': 8, 'backend': p['backend'], 'opts': {}, 'observable': 'construct'}
    try:
        e, i, shape = _build('C', p['kw'], 8, p['backend'], {})
        err = None
        x = torch.rand(1, *shape)
        i(x)
    except Exception as ex_:
        err = f'{type(ex_).__name__}: {ex_}'[:300]
    if selftest:
        err = err or 'seeded'
    res.oblige(err is None)
    res.paths += 1
    res.sample({'construct': p['id'], 'error': err})
    if err is not None:
        rec['key'] = f'{p["backend"]}|construct|{p["name"]}'
        _viol(res, rec, f'integerize_arch({p["backend"]}) on a network with {p["name"]}: {err}', selftest)
        return
    for n, qc, ic in _pairs(e, i):
        pr = stored_problem(n, ic, p['backend'], 8)
        res.oblige(pr is None)
        if pr:
            _viol(res, dict(rec, observable='stored', key=f'{p["backend"]}|stored|{p["name"]}|{n}'), pr, selftest)


def _run_net(res, p, selftest):
    be, net, kw, bits, opts, wseed = p['backend'], p['net'], p['kw'], p['bits'], p['opts'], p.get('wseed', 0)
    base = {'net': net, 'kw': kw, 'bits': bits, 'backend': be, 'opts': opts, 'wseed': wseed}
    try:
        e, i, shape = _build(net, kw, bits, be, opts, wseed)
    except Exception as ex_:
        res.oblige(False)
        _viol(res, dict(base, observable='construct', key=f'{be}|construct|{net}{kw}'), f'construction failed: {type(ex_).__name__}: {ex_}'[:300], selftest)
        return
    # shapes of the activations entering each layer
    shapes = {}
    hooks = [ic.register_forward_pre_hook(lambda m_, inp, _n=n: shapes.__setitem__(_n, tuple(inp[0].shape))) for n, qc, ic in _pairs(e, i)]
    with torch.no_grad():
        i(torch.rand(1, *shape))
    for h in hooks:
        h.remove()
    for n, qc, ic in _pairs(e, i):
        ib = int(qc.in_quantizer.precision)          # the declared range of THIS layer's input (precisions may differ from layer to layer)
        off = 0 if be == 'MATCH' else 2 ** (ib - 1)
        lo, hi = (0, 2 ** ib - 1) if be == 'MATCH' else (-2 ** (ib - 1), 2 ** (ib - 1) - 1)
        pr = stored_problem(n, ic, be, int(qc.w_quantizer.precision))
        res.oblige(pr is None)
        if pr:
            _viol(res, dict(base, observable='stored', key=f'{be}|stored|{net}{kw}|{n}'), pr, selftest)
        xs = shapes[n]
        last = type(qc.out_quantizer).__name__ == 'DummyQuantizer'
        # tolerance: one level + the bound implied by the layer's own scale/shift approximation
        tol = 1.0
        if not last:
            with torch.no_grad():
                target = (ic.s_w * ic.s_x / ic.s_y).reshape(-1).double()
                approx = ic.scale.reshape(-1).double() / (2.0 ** float(ic.shift.reshape(-1)[0]))
                accmax = ic.weight.detach().abs().reshape(ic.weight.shape[0], -1).sum(dim=1).double() * max(abs(lo), abs(hi))
                tol = 1.0 + float((accmax * (approx - target).abs()).max())

        def fn(ex):
            with SymMode():
                nel = int(np.prod(xs))
                xi = [z3.Int(f'xi_{k}') for k in range(nel)]
                for v in xi:
                    ex.assume(v >= lo, v <= hi)
                X = SymTensor.from_array(np.array(xi, dtype=object).reshape(xs), torch.float32)
                yi = ic(X)
                xf = (X + off) * qc.in_quantizer.scale
                if last:
                    yq = qc(xf)
                    if be == 'MATCH':
                        sc = ic.s_x * ic.s_w
                        yi = yi * (sc.reshape(1, -1) if yi.dim() == 2 else sc.reshape(1, -1, 1, 1))
                else:
                    qc.out_quantizer.dequantize = False
                    try:
                        yq = qc(xf) - off
                    finally:
                        qc.out_quantizer.dequantize = True
                guards = list(ex.guards)
            return xi, list(st.to_arr(yi).reshape(-1)), list(st.to_arr(yq).reshape(-1)), guards
        ex = Explorer(timeout_ms=Q)
        for pc, (xi, A, B, guards) in ex.explore(fn):
            for k, (a, b) in enumerate(zip(A, B)):
                if last:
                    bound = st.e_add(st.e_mul(st.e_abs(b), Fraction(1, 10 ** 4)), Fraction(1, 10 ** 4))
                    bad = st.e_gt(st.e_abs(st.e_sub(a, b)), bound)
                else:
                    t = Fraction(tol).limit_denominator(10 ** 6) - (1 if selftest else 0)
                    bad = st.e_gt(st.e_abs(st.e_sub(a, b)), t)
                if bad is False:
                    res.oblige(True)
                    continue
                r, m = ex.check(bad)
                if r == 'unknown':
                    res.inconclusive.append(f'{n} output {k}: unknown')
                    continue
                res.oblige(r == 'unsat')
                if r == 'sat':
                    xv = [m.eval(v, model_completion=True).as_long() for v in xi]
                    _viol(res, dict(base, observable='layer', layer=n, x=xv, xshape=list(xs), tol=(tol if not last else 1e-3),
                                    key=f'{be}|layer:{type(ic).__name__}|{"last" if last else "requant"}|{net}{kw}|bits={bits}'),
                          f'{be} {n} ({type(ic).__name__}) differs from its fake-quantised counterpart by more than {"float rounding" if last else f"{tol:.3f} levels"} at integer input {xv}', selftest)
                    break
            # arithmetic in a narrow integer dtype must not overflow for any activation of the declared range
            for g in guards:
                rg, mg = ex.check(g)
                if rg == 'unknown':
                    res.inconclusive.append(f'{n}: overflow guard unknown')
                    continue
                res.oblige(rg == 'unsat')
                if rg == 'sat':
                    xv = [mg.eval(v, model_completion=True).as_long() for v in xi]
                    _viol(res, dict(base, observable='layer', layer=n, x=xv, xshape=list(xs), tol=(tol if not last else 1e-3),
                                    key=f'{be}|layer:{type(ic).__name__}|narrow_int_overflow|{net}{kw}|bits={bits}'),
                          f'{be} {n} ({type(ic).__name__}): an intermediate value computed in a 32-bit (or narrower) integer dtype leaves its range at integer input {xv}', selftest)
                    break
            r, m = ex.must()
            xv = [m.eval(v, model_completion=True).as_long() for v in xi]
            d, info = concrete_layer_diff(dict(base, layer=n, x=xv, xshape=list(xs)))
            res.sample({'backend': be, 'layer': n, 'bits': bits, 'tolerance_levels': tol if not last else 'float rounding', 'x': xv, 'max_abs_diff_plain_torch': d})
            if d is not None and d <= (tol if not last else 1e-2) + 1e-3:
                res.validated += 1
            elif not res.violations:
                res.errors.append(f'engine: within tolerance, plain torch: {d} {info[:200]}')
        res.absorb(ex)
    # wiring: whatever integer tensor layer k emits (every value of its declared output range, negative ones included for MAUPITI) reaches
    # layer k+1 unchanged (up to reshaping) - the per-layer obligations above then compose to the whole network. Layer k's output is replaced by
    # fresh z3 integers through a forward hook, the real integer network runs on, and the input of layer k+1 is captured.
    pairs = _pairs(e, i)
    for (n0, q0, ic0), (n1, q1, ic1) in zip(pairs, pairs[1:]):
        ob = int(q1.in_quantizer.precision)
        lo, hi = (0, 2 ** ob - 1) if be == 'MATCH' else (-2 ** (ob - 1), 2 ** (ob - 1) - 1)

        class _Stop(Exception):
            pass

        def fnw(ex):
            cap = {}
            with SymMode():
                def out_hook(m_, inp, out):
                    ys = [z3.Int(f'y_{k}') for k in range(out.numel())]
                    for v in ys:
                        ex.assume(v >= lo, v <= hi)
                    cap['y'] = ys
                    return SymTensor.from_array(np.array(ys, dtype=object).reshape(tuple(out.shape)), torch.float32)

                def in_hook(m_, inp):
                    cap['x'] = list(st.to_arr(inp[0]).reshape(-1))
                    raise _Stop()
                h0, h1 = ic0.register_forward_hook(out_hook), ic1.register_forward_pre_hook(in_hook)
                try:
                    i(torch.zeros(1, *shape))
                except _Stop:
                    pass
                finally:
                    h0.remove()
                    h1.remove()
            return cap
        exw = Explorer(timeout_ms=Q)
        for pc, cap in exw.explore(fnw):
            if 'x' not in cap or len(cap['x']) != len(cap['y']):
                res.oblige(False)
                _viol(res, dict(base, observable='wiring', frm=n0, to=n1, y=[], key=f'{be}|wiring|{net}{kw}|{n0}->{n1}'), f'{be}: the output of {n0} does not reach {n1} element by element', selftest)
                continue
            diffs = [st.e_ne(a, b) for a, b in zip(cap['x'], cap['y'])]
            diffs = [d for d in diffs if d is not False]
            if not diffs and not selftest:
                res.oblige(True)
                continue
            r, m = exw.check(z3.Or([st.lift(d, 'b') if not isinstance(d, bool) else z3.BoolVal(d) for d in diffs])) if diffs else ('sat', exw.must()[1])
            if r == 'unknown':
                res.inconclusive.append(f'wiring {n0}->{n1}: unknown')
                continue
            res.oblige(r == 'unsat')
            if r == 'sat':
                yv = [m.eval(v, model_completion=True).as_long() for v in cap['y']]
                _viol(res, dict(base, observable='wiring', frm=n0, to=n1, y=yv, key=f'{be}|wiring|{net}{kw}|{n0}->{n1}'),
                      f'{be}: integer activations {yv} emitted by {n0} do not reach {n1} unchanged (an op between the two integer layers alters them)', selftest)
        res.absorb(exw)
    res.witnesses += 1
    res.witnesses_ok += 1 if res.obligations > 0 else 0
