"""C09 - every layer sees exactly the alive features of the tensor that reaches it.

Channel masks (alpha) are z3 reals, the network input is symbolic.  The PIT model is run once on the symbolic input while
forward pre-hooks capture the tensor reaching every converted layer; summary()/export() then fork on the mask bits.
On every feasible path and for every converted layer, the number of alive input features is decided BY THE SOLVER from the
captured tensor (feature f is alive iff  exists x . some element of feature f != 0  is satisfiable under the path condition)
and must equal  input_features_calculator.features == sum(features_mask) == summary()['in_features'] == exported
in_channels / in_features;  the exported network must run on the original input shape.
"""
import copy
import time
from fractions import Fraction

import numpy as np
import torch
import torch.nn as nn
import z3

import symtorch as st
from symtorch import Explorer, SymMode, SymTensor, swapped_params
from vlib import pitlib
from vlib.harness import InstanceResult, jsonable

PROPERTY = 'C09'
TECHNIQUE = 'symbolic execution of the real feature calculators / PIT forward / export on z3-real channel masks and inputs; alive features of the tensor reaching each layer decided by satisfiability queries and compared with calculator, summary and exported sizes'
FUNCTIONS_ENCODED = ['add_features_calculator/associate_input_features (run natively at conversion)', 'ConstFeaturesCalculator/ModAttrFeaturesCalculator/FlattenFeaturesCalculator/ConcatFeaturesCalculator .features/.features_mask/.register',
                     'register_input_features', 'build_shared_features_map', 'PITConv1d/PITConv2d/PITLinear.forward/in_features_opt/export', 'PIT.summary/export']
BOUNDS = {'quick': 'K1 origin pairs {s,f,i}^2, K3 (nested DenseNet-style concat, fixed/searchable leaves), H1 (branches flattened at different resolutions, then concatenated), A1, K2, F1 (3 flatten variants), Q1, W1 (1D, 2D), X1 (excluded by name / by type), D2; <= 3 channels per tensor, <= 2 timesteps; W2 (grouped conv with channel multiplier, excluded), A2 (residual sum after flatten), 1D and 2D',
          'thorough': 'same + 3-way concats (all 27 origin triples), A1 depthwise, W1 chains of 3, fold_bn variants, R2/R3/R4 repeated layers'}
OUTSIDE = ['architectures outside the grammar', 'time / dilation masks (left open here, see C01)', 'a feature that is alive only for weight values other than the generic assignment (weights are concrete, pairwise distinct, non-zero)']
ASSUMPTIONS = ['positive dyadic weights/biases/BatchNorm affine and non-negative inputs: an unmasked feature is positive for some input, a masked one is identically 0 (ReLU cannot kill an unmasked feature for every input)', 'receptive-field / dilation masks stay at their initial open value']
INSTANCE_TIMEOUT_S = {'quick': 1500, 'thorough': 3600}
Q = 60000


def instances(tier, seed):
    progs = []
    for a in 'sfi':
        for b in 'sfi':
            progs.append({'fam': 'K1', 'origins': [a, b]})
    progs += [{'fam': 'A1', 'K': 1, 'C': 2}, {'fam': 'K2', 'T': 1}, {'fam': 'K2', 'T': 1, 'dim': -1}, {'fam': 'F1', 'variant': 'method'}, {'fam': 'F1', 'variant': 'module'}, {'fam': 'F1', 'variant': 'function'},
              {'fam': 'Q1'}, {'fam': 'W1', 'nd': 1}, {'fam': 'W1', 'nd': 2}, {'fam': 'X1', 'kind': 'conv', 'exclude': 'name'}, {'fam': 'X1', 'kind': 'linear', 'exclude': 'type'},
              {'fam': 'D2', 'C': 2, 'cin': 2}, {'fam': 'K3', 'origins': ['f', 'f']}, {'fam': 'K3', 'origins': ['s', 'f']}, {'fam': 'H1'},
              # grouped convolution with a channel multiplier (groups = in_channels != out_channels): not a depthwise conv, it defines its own features
              {'fam': 'W2', 'nd': 1, 'exclude': 'name'}, {'fam': 'W2', 'nd': 2, 'exclude': 'name'},
              # residual sum taken AFTER the flatten
              {'fam': 'A2', 'nd': 1}, {'fam': 'A2', 'nd': 2},
              # squeeze of a trailing unit dimension of a 4D activation (dim given as -1 and as 3); concat of several views of one producer
              {'fam': 'Q2', 'dim': -1}, {'fam': 'Q2', 'dim': 3}, {'fam': 'K4'},
              # an excluded layer fed directly by a searchable one, or only through a concat
              {'fam': 'X2', 'via': 'direct', 'exclude': 'name'}, {'fam': 'X2', 'via': 'cat', 'exclude': 'name'}]
    if tier == 'thorough':
        progs += [{'fam': 'W2', 'nd': 1, 'exclude': 'name', 'mult': 3}, {'fam': 'W2', 'nd': 1, 'exclude': 'name', 'C': 3}]
        progs += [{'fam': 'K3', 'origins': ['f', 's']}, {'fam': 'K3', 'origins': ['s', 's']}, {'fam': 'K3', 'origins': ['f', 'f'], 'C': 3, 'cin': 2}]
        for a in 'sfi':
            for b in 'sfi':
                for c in 'sfi':
                    progs.append({'fam': 'K1', 'origins': [a, b, c]})
        progs += [{'fam': 'A1', 'K': 1, 'C': 2, 'dw': True}, {'fam': 'A1', 'K': 1, 'C': 3}, {'fam': 'W1', 'nd': 1, 'chain': 3}, {'fam': 'W1', 'nd': 1, 'C': 3},
                  {'fam': 'T2', 'K0': 1, 'K1': 1, 'T': 2}, {'fam': 'T2', 'K0': 1, 'K1': 1, 'T': 2, 'pit': {'fold_bn': True}}, {'fam': 'D2', 'C': 3, 'cin': 2, 'pool': 'avg'},
                  {'fam': 'R2', 'K': 1}, {'fam': 'R4', 'K': 1}, {'fam': 'L1'}, {'fam': 'X1', 'kind': 'conv'}, {'fam': 'F1', 'C': 3, 'T': 2}]
    progs.append({'fam': 'R3'})
    out = [{'id': pitlib.prog_id(s), 'spec': s, 'wseed': seed} for s in progs]
    # MPS side of the same bookkeeping: per-channel weight search with the 0-bit (pruning) option; both operands of a residual sum keep the same
    # alive channels, also when a channel-preserving reshape (flatten(2)) sits between a searchable layer and the sum
    out.append({'id': 'MPS:MF(per_channel+0bit)', 'what': 'mps_add', 'spec': {'fam': 'MF', 'wtype': 'channel', 'w': [0, 2, 8], 'a': [8]}, 'wseed': seed})
    return out


def _layer_types():
    from plinio.methods.pit.nn import PITConv1d, PITConv2d, PITLinear
    return (PITConv1d, PITConv2d, PITLinear)


def observe_concrete(spec, wseed, masks, x=None):
    """plain torch: per converted layer (calculator features, mask sum, summary in_features, exported size, alive count measured on
    random inputs), and whether the exported net runs"""
    pit, model, shape = pitlib.make_pit(spec, wseed, positive=True, discrete_cost=True)
    pitlib.set_masks(pit, masks)
    torch.manual_seed(0)
    X = torch.rand(4, *shape) + 0.5      # positive inputs and positive weights: exactly the unmasked features are non-zero
    cap = {}
    hooks = []
    for lname, layer in pitlib.pit_layers(pit):
        if isinstance(layer, _layer_types()):
            hooks.append(layer.register_forward_pre_hook(lambda m, inp, _n=lname: cap.setdefault(_n, []).append(inp[0].detach())))
    with torch.no_grad():
        pit(X)
    for h in hooks:
        h.remove()
    out = {}
    summ = pit.summary()
    for lname, layer in pitlib.pit_layers(pit):
        if not isinstance(layer, _layer_types()):
            continue
        alive = None
        for t in cap.get(lname, []):
            a = int((t.transpose(0, 1).reshape(t.shape[1], -1).abs().sum(dim=1) > 0).sum())
            alive = a if alive is None else max(alive, a)
        calc = layer.input_features_calculator
        out[lname] = {'calc': float(calc.features), 'mask_sum': float(calc.features_mask.sum()), 'summary': summ[lname]['in_features'], 'alive': alive}
    err = None
    try:
        e = pit.export().eval()
        with torch.no_grad():
            y = e(X[:1])
        for lname in out:
            m = e.get_submodule(lname)
            out[lname]['exported'] = m.in_features if isinstance(m, nn.Linear) else (m.in_channels if m.groups == 1 else m.in_channels)
    except Exception as ex_:
        err = f'{type(ex_).__name__}: {ex_}'[:200]
    return out, err


def _mps_add_observe(m):
    """alive channels (non-zero selected weight precision) of the two operands of the sum and the features the consumer is given"""
    summ = m.summary()
    al = {n: [int(b != 0) for b in summ[n]['w_precision']] for n in ('stem', 'a')}
    cons = float(m.seed.c.input_features_calculator.features)
    return al, cons


def _mps_add_problem(al, cons):
    if al['stem'] != al['a']:
        return 'add_operands_differ', f"the operands of the residual sum keep different channels alive: stem {al['stem']} vs a {al['a']}"
    union = sum(1 for u, v in zip(al['stem'], al['a']) if u or v)
    if abs(cons - union) > 1e-6:
        return 'consumer_features!=alive', f'the consumer of the sum is given {cons} input features but {union} channels of the tensor reaching it are alive'
    return None


def _replay_mps_add(rec):
    from vlib import mpslib
    m, model, shape = mpslib.make_mps(rec['spec'], rec.get('wseed', 0))
    mpslib.set_alphas(m, rec['alphas'])
    with torch.no_grad():
        m(torch.zeros((1,) + tuple(shape)))
    al, cons = _mps_add_observe(m)
    pr = _mps_add_problem(al, cons)
    return pr is not None and pr[0] == rec['observable'], f'{pr} alive={al} consumer features={cons}'


def _run_mps_add(res, p):
    from vlib import mpslib
    spec, wseed, selftest = p['spec'], p.get('wseed', 0), p.get('selftest', False)
    m, model, shape = mpslib.make_mps(spec, wseed)

    def fn(ex):
        pairs, sy = mpslib.fresh_alphas(m, ex, only=lambda nme: nme.endswith('stem.w_mps_quantizer') or nme.endswith('a.w_mps_quantizer'))
        with SymMode(), swapped_params(pairs), mpslib.saved_thetas(m):
            m(torch.zeros((1,) + tuple(shape)))        # eval mode: forks on every per-channel arg-max
            al, cons = _mps_add_observe(m)
        return sy, al, cons
    ex = Explorer(timeout_ms=Q)
    n = 0
    for pc, (sy, al, cons) in ex.explore(fn):
        n += 1
        if all(v == 0 for v in al['stem']) or all(v == 0 for v in al['a']):
            continue        # a layer with every channel pruned disappears (MPS has no keep-alive): outside, as in C05
        pr = _mps_add_problem(al, cons)
        if selftest and n == 1:
            pr = ('add_operands_differ', 'seeded')
        res.oblige(pr is None)
        mm = mpslib.grid_model(ex, sy, [])
        alphas = mpslib.values_of(mm, sy)
        rec = {'what_kind': 'mps_add', 'spec': spec, 'wseed': wseed, 'alphas': jsonable(alphas)}
        if pr is None:
            ok, msg = _replay_mps_add(dict(rec, observable='none'))
            al_c = msg
            res.validated += 1
            if n <= 2:
                res.sample({'program': 'MF (MPS per-channel, 0 bit)', 'alphas': alphas, 'alive': al, 'consumer_features': cons})
            continue
        rec.update(observable=pr[0], key=f'MPS:MF|{pr[0]}' + ('|selftest' if selftest else ''), what=f'MPS MF (per-channel search with 0 bit): {pr[1]}')
        if selftest:
            res.violations.append(jsonable(rec))
            continue
        if any(v['key'] == rec['key'] for v in res.violations):
            continue
        ok, msg = _replay_mps_add(jsonable(rec))
        if ok:
            rec['replay_msg'] = msg
            res.violations.append(jsonable(rec))
        else:
            res.errors.append(f'counterexample did not reproduce: {rec["key"]}: {msg[:300]}')
    res.witnesses += 1
    res.witnesses_ok += 1 if ex.n_paths >= 2 else 0
    res.absorb(ex)
    return res


def replay(rec):
    if rec.get('what_kind') == 'mps_add':
        return _replay_mps_add(rec)
    out, err = observe_concrete(rec['spec'], rec.get('wseed', 0), rec['masks'])
    obs = rec['observable']
    if obs == 'export_or_run_raised':
        return err is not None, f'export/run: {err}; layers: {out}'
    lname = rec['layer']
    o = out.get(lname, {})
    if err is not None and 'exported' not in o:
        return True, f'export/run raised {err}; layer {lname}: {o}'
    vals = {k: o.get(k) for k in ('calc', 'mask_sum', 'summary', 'exported', 'alive')}
    bad = len({round(float(v)) for v in vals.values() if v is not None}) > 1
    return bad, f'layer {lname}: {vals}'


def run_instance(p):
    res = InstanceResult(p['id'])
    if p.get('what') == 'mps_add':
        return _run_mps_add(res, p)
    spec, wseed, selftest = p['spec'], p.get('wseed', 0), p.get('selftest', False)
    pit, model, shape = pitlib.make_pit(spec, wseed, positive=True, discrete_cost=True)
    layers = [(n, l) for n, l in pitlib.pit_layers(pit) if isinstance(l, _layer_types())]

    def fn(ex):
        pairs, sy = pitlib.fresh_masks(pit, only=lambda qn: qn.endswith('.alpha'))
        cap = {}
        hooks = []
        with SymMode(), swapped_params(pairs):
            x = SymTensor.fresh('x', (1,) + tuple(shape))
            for v in x.elems():
                ex.assume(v >= 0)
            for lname, layer in layers:
                hooks.append(layer.register_forward_pre_hook(lambda m, inp, _n=lname: cap.setdefault(_n, []).append(inp[0])))
            try:
                pit(x)
            finally:
                for h in hooks:
                    h.remove()
            calc = {}
            for lname, layer in layers:
                c = layer.input_features_calculator
                calc[lname] = (st.scalar_of(c.features), st.to_arr(c.features_mask).copy())
            summ = {k: v['in_features'] for k, v in pit.summary().items() if 'in_features' in v}     # forks on the masks
            err, exp, yshape = None, {}, None
            try:
                e = pit.export()
                y = e.eval()(x)
                for lname, _ in layers:
                    m = e.get_submodule(lname)
                    exp[lname] = m.in_features if isinstance(m, nn.Linear) else m.in_channels
            except Exception as ex_:
                err = f'{type(ex_).__name__}: {ex_}'[:200]
        return sy, x, cap, calc, summ, exp, err
    ex = Explorer(timeout_ms=Q)
    n = 0
    for pc, (sy, x, cap, calc, summ, exp, err) in ex.explore(fn):
        n += 1
        viols = []
        if err is not None:
            viols.append(('export_or_run_raised', None, err))
        for lname, layer in layers:
            feats, fmask = calc[lname]
            # alive features of the tensor(s) reaching the layer, decided by the solver
            alive = None
            for t in cap.get(lname, []):
                T = st.to_arr(t)
                Tm = np.moveaxis(T, 1, 0).reshape(T.shape[1], -1)
                cnt = 0
                for f in range(Tm.shape[0]):
                    nz = [st.e_ne(v, 0) for v in Tm[f]]
                    nz = [c for c in nz if c is not False]
                    if any(c is True for c in nz):
                        cnt += 1
                        continue
                    if not nz:
                        continue
                    r, _ = ex.must(z3.Or([st.lift(c, 'b') for c in nz]) if len(nz) > 1 else st.lift(nz[0], 'b'), want_model=False)
                    cnt += 1 if r == 'sat' else 0
                alive = cnt if alive is None else max(alive, cnt)
            want = alive if not selftest else (alive or 0) + 1
            # every reported number must equal the alive count on this path (solver query on the symbolic terms)
            msum = Fraction(0)
            for v in fmask.reshape(-1):
                msum = st.e_add(msum, v)
            for name, term in (('calculator.features', feats), ('sum(features_mask)', msum), ('summary', summ.get(lname)), ('exported', exp.get(lname))):
                if term is None:
                    continue
                bad = st.e_ne(term, want)
                if bad is False:
                    res.oblige(True)
                    continue
                r, m = (ex.must(bad) if bad is not True else ('sat', None))
                res.oblige(r == 'unsat')
                if r == 'sat':
                    viols.append((f'{name}!=alive', lname, f'{name} = {term if not st.is_sym(term) else st.model_value(m, term)} but {want} features of the tensor reaching {lname} are alive'))
        if not viols:
            res.oblige(err is None)
            if n <= 3 or n % 4 == 0:
                m2, _ = pitlib.grid_model(ex, sy, [])
                if m2 is not None:
                    masks = pitlib.values_of(m2, sy)
                    out, cerr = observe_concrete(spec, wseed, masks)
                    okc = cerr is None and all(len({round(float(v)) for v in o.values() if v is not None}) == 1 for o in out.values())
                    if n <= 2:
                        res.sample({'program': pitlib.prog_id(spec), 'masks': masks, 'layers': out})
                    if okc:
                        res.validated += 1
                    else:
                        res.errors.append(f'engine consistent but plain torch is not: {out} {cerr} masks={jsonable(masks)}')
            continue
        res.oblige(False) if err is not None else None
        for obs, lname, text in viols[:2]:
            m2, _ = pitlib.grid_model(ex, sy, [])
            rec = {'spec': spec, 'wseed': wseed, 'masks': pitlib.values_of(m2, sy), 'observable': obs, 'layer': lname,
                   'key': f'{pitlib.prog_id(spec)}|{obs}|{lname}' + ('|selftest' if selftest else ''), 'what': f'{pitlib.prog_id(spec)}: {text}'}
            if any(v['key'] == rec['key'] for v in res.violations):
                continue
            if selftest:
                res.violations.append(jsonable(rec))
                continue
            okr, msg = replay(jsonable(rec))
            if okr:
                rec['replay_msg'] = msg
                res.violations.append(jsonable(rec))
            else:
                res.errors.append(f'counterexample did not reproduce: {rec["key"]}: {msg[:400]}')
    res.witnesses += 1
    res.witnesses_ok += 1 if ex.n_paths >= 1 else 0
    res.absorb(ex)
    return res
