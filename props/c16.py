"""C16 - built-in cost models are finite, non-negative and monotone in layer size.

Every function registered in the built-in CostSpecs is executed on layer descriptions whose channel counts (z3 Int, and
z3 Real for the relaxed fractional counts met during a search), output sizes and w_theta_alpha are solver variables; kernel
sizes, bit-widths and the bias flag are enumerated.  Obligations (negation sent to z3): no reachable division by zero
(finite), value >= 0, > 0 for non-empty layers at non-zero bits, f(.., d + delta, ..) >= f(.., d, ..) for every size
dimension d, bits monotone where bits scale the work, depthwise == generic per group for size/ops counts, rounding
helpers equal exact ceil / floor / mod on integers and pass gradients through, unsupported precisions/kinds raise.
"""
import itertools
import math
import time
from fractions import Fraction

import numpy as np
import torch
import torch.nn as nn
import z3

import symtorch as st
from symtorch import Explorer, SymMode, SymScalar, SymTensor
from vlib.harness import InstanceResult, jsonable

PROPERTY = 'C16'
TECHNIQUE = 'symbolic execution of every registered cost function on z3 Int/Real layer sizes; monotonicity, non-negativity and finiteness as unsat queries (LIA/NIA), rounding helpers against exact ceil/floor/mod'
FUNCTIONS_ENCODED = ['plinio.cost.params/params_no_bias/params_bit/ops/ops_no_bias/ops_bit (all registered functions)',
                     'gap8_latency (_gap8_latency_conv2d_generic/_dw/_linear, FloorSTE, _floor)',
                     'mpic_latency, mpic_energy (_mpic_lut, _energy_from_cycles_mpic)',
                     'ne16_latency (Ne16PerfModel.latency and helpers, Ne16PerfModel_generalized, FloorDivideSTE, DivAndCeilSTE, ModuloSTE)',
                     'diana_latency (_analog_cycles, _digital_cycles, ComputeOxUnrollSTE, GateSTE, FloorSTE)', 'CostSpec.__getitem__ (real lookup incl. depthwise constraint)']
BOUNDS = {
    'quick': 'channels in [1,130] symbolic (Int; Real for relaxed counts), output sizes in [1,33] symbolic where the query stays linear else boundary grid {1,2,3,4,8,9,16,17,33}, kernels {1,3,5,7}, bits {0,2,4,8}, bias on/off; per-query timeout 60 s',
    'thorough': 'same with every non-tested dimension swept over a denser grid (channels {1,2,15,16,17,31,32,33,63,64,65,127,128,129,130}, output sizes 1..33 odd/even boundaries), Real relaxations for all channel dimensions',
}
OUTSIDE = ['float32 rounding inside the cost arithmetic (values above 2^24)', 'channels > 130, output sizes > 33', 'CUDA tensors']
ASSUMPTIONS = ['layer descriptions are valid: channels >= 1 (>= 0 for the gate tests), sizes >= 1, w_theta_alpha in (0,1]',
               'non-tested dimensions are enumerated on boundary grids when the all-symbolic query is non-linear (stated per instance in evidence notes)']
INSTANCE_TIMEOUT_S = {'quick': 1200, 'thorough': 3600}

Q = 60000
import os
DEBUG = bool(os.environ.get('VERIF_DEBUG'))


def _t(v, dtype=torch.float32):
    """0-d SymTensor around a z3 term / number"""
    return SymTensor.from_array(np.array(v if st.is_sym(v) else st.conc(v), dtype=object), dtype)


def _val(x):
    if isinstance(x, torch.Tensor):
        return st.scalar_of(x)
    if isinstance(x, SymScalar):
        return x.t
    return st.conc(x)


# ---------------------------------------------------------------------------------------------------------------------
# spec builders.  dims: dict with cin, cout, k (tuple), out (tuple), bias, wp, ip, theta, groups
# ---------------------------------------------------------------------------------------------------------------------
def mk_spec(kind, d):
    """kind in conv1d, conv1d_dw, conv2d, conv2d_dw, linear"""
    s = {'_parameters': {'bias': (object() if d.get('bias', True) else None)}}
    nd = 1 if '1d' in kind else 2
    if kind == 'linear':
        s['in_features'] = d['cin']
        s['out_features'] = d['cout']
        s['output_shape'] = (1, d['cout'])
    else:
        s['in_channels'] = d['cin']
        s['out_channels'] = d['cout']
        s['groups'] = d.get('groups', 1)
        s['kernel_size'] = tuple(d['k'])[:nd]
        s['output_shape'] = (1, d['cout']) + tuple(d['out'])[:nd]
    for a, b in (('wp', 'w_precision'), ('ip', 'in_precision'), ('theta', 'w_theta_alpha'), ('ap', 'a_precision')):
        if a in d:
            s[b] = d[a]
    return s


def ltype(kind):
    return nn.Linear if kind == 'linear' else (nn.Conv1d if '1d' in kind else nn.Conv2d)


def cost_specs():
    import plinio.cost as pc
    from plinio.cost import params, params_bit, ops, ops_bit, gap8_latency, ne16_latency, diana_latency
    from plinio.cost.params_no_bias import params_no_bias
    from plinio.cost.ops_no_bias import ops_no_bias
    from plinio.cost.mpic_latency import mpic_latency
    from plinio.cost.mpic_energy import mpic_energy
    return dict(params=params, params_no_bias=params_no_bias, params_bit=params_bit, ops=ops, ops_no_bias=ops_no_bias,
                ops_bit=ops_bit, gap8_latency=gap8_latency, ne16_latency=ne16_latency, diana_latency=diana_latency,
                mpic_latency=mpic_latency, mpic_energy=mpic_energy)


KINDS = {
    'params': ['conv1d', 'conv1d_dw', 'conv2d', 'conv2d_dw', 'linear'],
    'params_no_bias': ['conv1d', 'conv1d_dw', 'conv2d', 'conv2d_dw', 'linear'],
    'params_bit': ['conv1d', 'conv1d_dw', 'conv2d', 'conv2d_dw', 'linear'],
    'ops': ['conv1d', 'conv1d_dw', 'conv2d', 'conv2d_dw', 'linear'],
    'ops_no_bias': ['conv1d', 'conv1d_dw', 'conv2d', 'conv2d_dw', 'linear'],
    'ops_bit': ['conv1d', 'conv1d_dw', 'conv2d', 'conv2d_dw', 'linear'],
    'gap8_latency': ['conv2d', 'conv2d_dw', 'linear'],
    'mpic_latency': ['conv1d', 'conv1d_dw', 'conv2d', 'conv2d_dw', 'linear'],
    'mpic_energy': ['conv1d', 'conv1d_dw', 'conv2d', 'conv2d_dw', 'linear'],
    'ne16_latency': ['conv2d', 'conv2d_dw', 'linear'],
    'diana_latency': ['conv2d', 'linear'],
}
BIT_SCALED = ('params_bit', 'ops_bit', 'mpic_latency', 'mpic_energy', 'ne16_latency')
GRID_OUT = [1, 2, 3, 4, 8, 9, 16, 17, 33]
GRID_CH = [1, 2, 15, 16, 17, 31, 32, 33, 64, 65, 127, 128, 130]


def configs(spec_name, kind, tier):
    """enumerated (non-solver) part of the layer description: kernel, bits, bias"""
    if kind == 'linear':
        ks = [(1, 1)]
    elif spec_name == 'ne16_latency':
        ks = [(3, 3)] if kind == 'conv2d_dw' else [(3, 3), (1, 1)]
    else:
        ks = [(1, 1), (3, 3), (5, 5), (7, 7)] if tier == 'thorough' else [(1, 1), (3, 3), (7, 7)]
    out = []
    for k in ks:
        if spec_name in ('params', 'ops'):
            for bias in (True, False):
                out.append({'k': k, 'bias': bias})
        elif spec_name in ('params_no_bias', 'ops_no_bias', 'gap8_latency'):
            out.append({'k': k, 'bias': True})
        elif spec_name in ('params_bit', 'ops_bit'):
            for wp in (2, 8):
                out.append({'k': k, 'wp': wp, 'ip': 4})
        elif spec_name in ('mpic_latency', 'mpic_energy'):
            for wp, ip in ((2, 2), (8, 4), (4, 8)):
                out.append({'k': k, 'wp': torch.tensor(wp), 'ip': torch.tensor(ip), 'bias': True})
        elif spec_name == 'ne16_latency':
            for wp in (2, 4, 8):
                out.append({'k': k, 'wp': wp, 'ip': 8})
        elif spec_name == 'diana_latency':
            for wp in (2, 8):
                out.append({'k': k, 'wp': wp, 'ap': 8})
    return out


def instances(tier, seed):
    out = []
    for name, kinds in KINDS.items():
        for kind in kinds:
            ncfg = len(configs(name, kind, tier))
            if name in ('ne16_latency', 'diana_latency'):
                for ci in range(ncfg):       # the tile-based models fork a lot: one instance per enumerated configuration
                    out.append({'id': f'mono:{name}:{kind}:cfg{ci}', 'what': 'mono', 'spec': name, 'kind': kind, 'cfg_idx': ci})
            else:
                out.append({'id': f'mono:{name}:{kind}', 'what': 'mono', 'spec': name, 'kind': kind})
    out.append({'id': 'helpers', 'what': 'helpers'})
    out.append({'id': 'dw_vs_generic', 'what': 'dw'})
    out.append({'id': 'reject', 'what': 'reject'})
    out.append({'id': 'bits', 'what': 'bits'})
    return out


# ---------------------------------------------------------------------------------------------------------------------
LAST_FN = [None]


def eval_cost(spec_name, kind, dims):
    cs = cost_specs()[spec_name]
    spec = mk_spec(kind, dims)
    fn = cs[(ltype(kind), spec)]
    LAST_FN[0] = fn
    return fn(spec)


def generic_one_group(spec_name, kind, dims):
    """the generic (unconstrained) cost function of the layer type evaluated on ONE group, i.e. on an ordinary 1 -> 1 channel convolution with
    groups = 1. The function is looked up with a description that cannot be depthwise (2 -> 3 channels), then applied to the one-group description
    (a 1 -> 1 convolution is formally depthwise, so a lookup with it would return the depthwise function itself)."""
    cs = cost_specs()[spec_name]
    probe = dict(dims)
    probe['cin'], probe['cout'], probe['groups'] = torch.tensor(2.0), torch.tensor(3.0), 1
    fn = cs[(ltype(kind), mk_spec(kind, probe))]
    one = dict(dims)
    one['cin'], one['cout'], one['groups'] = torch.tensor(1.0), torch.tensor(1.0), 1
    return fn(mk_spec(kind, one))


def concrete_eval(spec_name, kind, cfg, vals):
    """plain torch evaluation used for replay / concolic validation. vals: cin, cout, out0, out1, theta (numbers)"""
    d = dict(cfg)
    d['k'] = tuple(cfg['k'])
    cin, cout = vals['cin'], vals['cout']
    d['cin'] = torch.tensor(float(cin))
    d['cout'] = torch.tensor(float(cout))
    if kind.endswith('_dw'):
        d['groups'] = float(cout)
        d['cin'] = d['cout']
    d['out'] = (int(vals['out0']), int(vals['out1']))
    if 'theta' in vals:
        d['theta'] = torch.tensor(float(vals['theta']))
    for b in ('wp', 'ip'):
        if b in d and not isinstance(d[b], torch.Tensor):
            d[b] = cfg[b]
    r = eval_cost(spec_name, kind, d)
    return float(r)


def replay(rec):
    cfg = dict(rec['cfg'])
    for b in ('wp', 'ip'):
        if b in cfg and rec['spec'].startswith('mpic'):
            cfg[b] = torch.tensor(int(cfg[b]))
    obs = rec['observable']
    if obs.startswith('reject'):
        ok, msg = _reject_case(rec['spec'], rec['kind'], rec['cfg_reject'])
        return (not ok), msg
    if obs.startswith('helper'):
        return _helper_concrete(rec)
    if obs.startswith('supported_raises'):
        msgs = []
        for c_, a_ in ((cfg, rec['a']), (dict(rec.get('cfg2', {})), rec['b'])):
            c_ = dict(c_)
            for b_ in ('wp', 'ip'):
                if b_ in c_ and rec['spec'].startswith('mpic'):
                    c_[b_] = torch.tensor(int(c_[b_]))
            try:
                concrete_eval(rec['spec'], rec['kind'], c_, a_)
            except (AssertionError, KeyError, ValueError, NotImplementedError) as e_:
                msgs.append(f'{type(e_).__name__}: {e_}'[:160])
        return bool(msgs), '; '.join(msgs) or 'both precision pairs are accepted'
    if obs.startswith('grouped_mono'):
        a_ = rec['a']
        g_ = float(a_['cin'])
        dw = concrete_eval(rec['spec'], rec['kind'] + '_dw', cfg, a_)
        c2 = dict(cfg)
        c2['groups'] = torch.tensor(g_)
        a2 = dict(a_)
        a2[rec['grow']] = 2 * g_
        gr = concrete_eval(rec['spec'], rec['kind'], c2, a2)
        return gr < dw - 1e-6 * max(1.0, abs(dw)), f'depthwise={dw} grouped (x2 {rec["grow"]})={gr}'
    if obs.startswith('dw_vs_generic'):
        a = concrete_eval(rec['spec'], rec['kind'], cfg, rec['a'])
        dgc = dict(cfg)
        dgc['k'] = tuple(cfg['k'])
        dgc['out'] = (int(rec['a']['out0']), int(rec['a']['out1']))
        g = float(generic_one_group(rec['spec'], rec['kind'].replace('_dw', ''), dgc))
        want = g * float(rec['a']['cout'])
        return abs(a - want) > 1e-6 * max(1, abs(want)), f'dw={a} generic-per-group x groups={want}'
    a = concrete_eval(rec['spec'], rec['kind'], cfg, rec['a'])
    if obs.startswith('mono') or obs.startswith('bits'):
        cfg2 = dict(cfg)
        if 'cfg2' in rec:
            cfg2 = dict(rec['cfg2'])
            for b in ('wp', 'ip'):
                if b in cfg2 and rec['spec'].startswith('mpic'):
                    cfg2[b] = torch.tensor(int(cfg2[b]))
        b = concrete_eval(rec['spec'], rec['kind'], cfg2, rec['b'])
        tol = 1e-6 * max(1.0, abs(a))
        return b < a - tol, f'f(small)={a} f(large)={b}'
    if obs.startswith('negative'):
        return a < 0, f'f={a}'
    if obs.startswith('zero'):
        return a <= 0, f'f={a}'
    if obs.startswith('nonfinite'):
        return not math.isfinite(a), f'f={a}'
    return False, 'unknown observable'


def _dims(ex, kind, cfg, real=False, suffix='', shared=None, fixed=None):
    """fresh symbolic dims (or shared ones); `fixed` maps dimension names to concrete values.
    returns (dims dict for mk_spec, dict of z3 vars / numbers)"""
    mk = z3.Real if real else z3.Int
    fixed = fixed or {}
    v = {}
    if shared is None:
        for n_, hi in (('cin', 130), ('cout', 130)):
            if n_ in fixed:
                v[n_] = z3.RealVal(fixed[n_]) if real else z3.IntVal(fixed[n_])
            else:
                v[n_] = mk(n_ + suffix)
                ex.assume(v[n_] >= 1, v[n_] <= hi)
        for n_ in ('out0', 'out1'):
            if n_ in fixed:
                v[n_] = fixed[n_]
            else:
                v[n_] = z3.Int(n_ + suffix)
                ex.assume(v[n_] >= 1, v[n_] <= 33)
    else:
        v = dict(shared)
    d = dict(cfg)
    d['cout'] = _t(v['cout'])
    if kind.endswith('_dw'):
        d['cin'] = d['cout']
        d['groups'] = d['cout']
    else:
        d['cin'] = _t(v['cin'])
    d['out'] = tuple(SymScalar(o) if st.is_sym(o) else o for o in (v['out0'], v['out1']))
    if 'theta' in v:
        d['theta'] = _t(v['theta'])
    return d, v


def _model_vals(m, v):
    out = {}
    for k, t in v.items():
        x = st.model_value(m, t) if st.is_sym(t) else t
        out[k] = x
    return out


def run_instance(p):
    st.core.FLOOR_LEMMAS = True
    res = InstanceResult(p['id'])
    tier = p.get('tier', 'quick')
    self_t = p.get('selftest', False)
    if p['what'] == 'mono':
        _run_mono(res, p['spec'], p['kind'], tier, self_t, p.get('cfg_idx'))
    elif p['what'] == 'helpers':
        _run_helpers(res, self_t)
    elif p['what'] == 'dw':
        _run_dw(res, tier, self_t)
        _run_grouped(res, tier, self_t)
    elif p['what'] == 'reject':
        _run_reject(res, self_t)
    elif p['what'] == 'bits':
        _run_bits(res, tier, self_t)
    return res


def _report(res, rec, what, selftest=False):
    rec = jsonable(rec)
    rec['what'] = what
    if selftest:
        rec['key'] += '|selftest'
        res.violations.append(rec)
        return
    try:
        ok, msg = replay(rec)
    except Exception as e:
        ok, msg = False, f'replay raised {type(e).__name__}: {e}'
    rec['replay_msg'] = msg
    if ok:
        if not any(v['key'] == rec['key'] for v in res.violations):
            res.violations.append(rec)
    else:
        res.errors.append(f'counterexample did not reproduce: {what}: {msg}')


def _cfg_json(cfg):
    return {k: (int(v) if isinstance(v, torch.Tensor) else (list(v) if isinstance(v, tuple) else v)) for k, v in cfg.items()}


def _run_mono(res, spec_name, kind, tier, selftest, cfg_idx=None):
    """finite, >= 0, > 0 and monotone in every size dimension"""
    uses_out = kind != 'linear' and not spec_name.startswith('params')
    ne16 = spec_name == 'ne16_latency'
    # dimensions to test and whether each can be real-valued (relaxed counts)
    dim_list = ['cout'] + ([] if kind.endswith('_dw') else ['cin']) + (['out0', 'out1'] if uses_out else [])
    reals = [False, True]
    cfgs = configs(spec_name, kind, tier)
    if cfg_idx is not None:
        cfgs = [cfgs[cfg_idx]]
    for cfg in cfgs:
        for real in reals:
            for dim in dim_list:
                if real and dim.startswith('out'):
                    continue
                _mono_one(res, spec_name, kind, cfg, dim, real, ne16, selftest, tier)


def _mono_one(res, spec_name, kind, cfg, dim, real, ne16, selftest, tier):
    cj = _cfg_json(cfg)
    label = f'{spec_name}:{kind}:{cj}:{dim}:{"real" if real else "int"}'

    def attempt(fixed, timeout):
        def fn(ex):
            with SymMode():
                d1, v1 = _dims(ex, kind, cfg, real=real, fixed=fixed)
                if ne16:
                    if 'theta' in fixed:
                        th = z3.RealVal(fixed['theta'])
                    else:
                        th = z3.Real('theta')
                        ex.assume(th > 0, th <= 1)
                    v1['theta'] = th
                    d1['theta'] = _t(th)
                v2 = dict(v1)
                if dim.startswith('out') and not st.is_sym(v1[dim]):
                    v2[dim] = v1[dim] + 1
                else:
                    delta = (z3.Real('delta') if real else z3.IntVal(1))
                    if real:
                        ex.assume(delta >= 0, delta <= 1)
                    v2[dim] = v1[dim] + delta
                    hi = 33 if dim.startswith('out') else 130
                    ex.assume(v2[dim] <= hi)
                d2, _ = _dims(ex, kind, cfg, shared=v2)
                try:
                    c1 = _val(eval_cost(spec_name, kind, d1))
                    f1 = LAST_FN[0]
                    c2 = _val(eval_cost(spec_name, kind, d2))
                except (AssertionError, ValueError, KeyError):
                    # a description the model rejects (e.g. a 1-channel 1x1 conv matching the depthwise pattern of NE16): not a valid layer here
                    raise st.Infeasible()
                if LAST_FN[0] is not f1:
                    # the two descriptions match different patterns (a 1-channel groups=1 convolution is formally depthwise):
                    # monotonicity is claimed within one pattern only
                    raise st.Infeasible()
                guards = list(ex.guards)
            return v1, v2, c1, c2, guards
        ex = Explorer(timeout_ms=timeout)
        outcome = []
        for pc, (v1, v2, c1, c2, guards) in ex.explore(fn):
            checks = [('mono', st.e_lt(c2, c1)), ('negative', st.e_lt(c1, 0)), ('zero', st.e_le(c1, 0))]
            if selftest and dim == 'cout':
                checks.append(('mono', st.e_le(c2, c1)))   # seeded wrong oracle: strictly increasing is false in general
            nog = [z3.Not(g) for g in guards]
            checks = [('nonfinite', g) for g in guards] + checks
            for name, bad in checks:
                t0 = time.time()
                r, m = ex.check(bad, *([] if name == 'nonfinite' else nog))
                if DEBUG and time.time() - t0 > 2:
                    print(f'   slow query {label} {name}: {r} {time.time() - t0:.1f}s', flush=True)
                if r == 'unknown':
                    outcome.append(('unknown', name, None, None))
                    res.absorb(ex)
                    return outcome
                res.oblige(r == 'unsat')
                if r == 'sat':
                    a, b = _model_vals(m, v1), _model_vals(m, v2)
                    outcome.append(('sat', name, a, b))
            if ex.n_paths == 1:
                r, m = ex.check(st.e_gt(c1, 0))
                res.witnesses += 1
                res.witnesses_ok += 1 if r == 'sat' else 0
                if r == 'sat':
                    a = _model_vals(m, v1)
                    res.sample({'cost': spec_name, 'kind': kind, 'cfg': cj, 'dim': dim, 'dims': a, 'value': st.model_value(m, c1) if st.is_sym(c1) else c1})
                    # concolic validation of the engine's value against plain torch
                    try:
                        want = concrete_eval(spec_name, kind, cfg, a)
                        got = float(st.model_value(m, c1)) if st.is_sym(c1) else float(c1)
                        if abs(want - got) <= 1e-4 * max(1.0, abs(want)):
                            res.validated += 1
                        else:
                            res.errors.append(f'concolic mismatch {label}: engine {got} torch {want} at {a}')
                    except Exception as e:
                        res.errors.append(f'concolic eval raised {label}: {type(e).__name__}: {e}')
        res.absorb(ex)
        return outcome

    others = [d_ for d_ in ('cin', 'cout', 'out0', 'out1') if d_ != dim and not (kind.endswith('_dw') and d_ == 'cin')]
    if kind == 'linear' or spec_name.startswith('params'):
        others = [d_ for d_ in others if not d_.startswith('out')]
    grid_ch = GRID_CH if tier == 'thorough' else [1, 17, 130]
    grid_out = GRID_OUT if tier == 'thorough' else [1, 8, 33]

    def grid_points():
        axes = []
        for d_ in others:
            axes.append([(d_, x) for x in (grid_ch if d_.startswith('c') else grid_out)])
        for combo in itertools.product(*axes):
            f = dict(combo)
            if kind == 'linear' or spec_name.startswith('params'):
                f.setdefault('out0', 1)
                f.setdefault('out1', 1)
            yield f
    # integer sizes: everything symbolic at once first (non-linear integer arithmetic, 20 s budget); relaxed (real) channel counts and
    # NIA time-outs: the tested dimension stays symbolic, the others are enumerated on the boundary grids (linear queries)
    outcome = []
    need_grid = real
    # NE16: w_theta_alpha (the share of channels at this precision) is enumerated: it multiplies and divides the channel count
    thetas = [None] if not ne16 else ([Fraction(1), Fraction(1, 2)] if not real else [Fraction(1), Fraction(1, 3)])
    if not real:
        for th_ in thetas:
            f0 = {} if th_ is None else {'theta': th_}
            if kind == 'linear' or spec_name.startswith('params'):
                f0.update({'out0': 1, 'out1': 1})
            o1 = attempt(f0, 20000)
            if any(o[0] == 'unknown' for o in o1):
                res.notes.append(f'{label}: all-symbolic (NIA) query unknown in 20 s -> other dimensions enumerated on boundary grids')
                need_grid = True
            outcome += [o for o in o1 if o[0] == 'sat']
    if need_grid:
        for th_ in thetas:
            for f in grid_points():
                if th_ is not None:
                    f['theta'] = th_
                for o in attempt(f, Q):
                    if o[0] == 'unknown':
                        res.inconclusive.append(f'{label}: unknown with {f} fixed')
                    else:
                        outcome.append(o)
    for kind_, name, a, b in outcome:
        if kind_ != 'sat':
            continue
        rec = {'spec': spec_name, 'kind': kind, 'cfg': cj, 'a': a, 'b': b, 'observable': f'{name}:{dim}',
               'key': f'{spec_name}|{kind}|{name}:{dim}|{"real" if real else "int"}|k={cj["k"]}'}
        _report(res, rec, f'{label}: {name} at {jsonable(a)} -> {jsonable(b)}', selftest)


# ---------------------------------------------------------------------------------------------------------------------
def _run_bits(res, tier, selftest):
    """bit-width monotonicity for the models in which bits scale the work"""
    order = [0, 2, 4, 8]
    for spec_name in BIT_SCALED:
        for kind in KINDS[spec_name]:
            ks = [(3, 3)] if spec_name == 'ne16_latency' or kind != 'linear' else [(1, 1)]
            if kind == 'linear':
                ks = [(1, 1)]
            for k in ks:
                pairs = []
                if spec_name.startswith('mpic'):
                    for ip in (2, 4, 8):
                        for w1, w2 in zip(order, order[1:]):
                            pairs.append(({'wp': w1, 'ip': ip}, {'wp': w2, 'ip': ip}))
                elif spec_name == 'ne16_latency':
                    for w1, w2 in zip(order, order[1:]):
                        pairs.append(({'wp': w1, 'ip': 8}, {'wp': w2, 'ip': 8}))
                else:
                    for w1, w2 in zip(order, order[1:]):
                        pairs.append(({'wp': w1, 'ip': 4}, {'wp': w2, 'ip': 4}))
                    for i1, i2 in zip(order[1:], order[2:]):
                        pairs.append(({'wp': 4, 'ip': i1}, {'wp': 4, 'ip': i2}))
                for c1, c2 in pairs:
                    _bits_one(res, spec_name, kind, k, c1, c2, selftest)


def _bits_one(res, spec_name, kind, k, b1, b2, selftest):
    mp = spec_name.startswith('mpic')

    def cfg_of(b):
        c = {'k': k, 'bias': True}
        c['wp'] = torch.tensor(b['wp']) if mp else b['wp']
        c['ip'] = torch.tensor(b['ip']) if mp else b['ip']
        return c

    def fn(ex):
        with SymMode():
            d1, v = _dims(ex, kind, cfg_of(b1))
            if spec_name == 'ne16_latency':
                th = z3.RealVal(1)
                v['theta'] = th
                d1['theta'] = _t(th)
            d2, _ = _dims(ex, kind, cfg_of(b2), shared=v)
            try:
                c1 = _val(eval_cost(spec_name, kind, d1))
                c2 = _val(eval_cost(spec_name, kind, d2))
            except (AssertionError, KeyError, ValueError, NotImplementedError) as e_:
                # every pair here is a precision the model declares supported: a rejection is a violation ("finite non-negative for every valid layer")
                return v, 'RAISED', f'{type(e_).__name__}: {e_}'[:200]
        return v, c1, c2
    ex = Explorer(timeout_ms=Q)
    for pc, (v, c1, c2) in ex.explore(fn):
        if isinstance(c1, str) and c1 == 'RAISED':
            res.oblige(False)
            r0, m0 = ex.must()
            a = _model_vals(m0, v)
            rec = {'spec': spec_name, 'kind': kind, 'cfg': _cfg_json(cfg_of(b1)), 'cfg2': _cfg_json(cfg_of(b2)), 'a': a, 'b': a,
                   'observable': 'supported_raises', 'key': f'{spec_name}|{kind}|supported_precision_rejected:{b1}/{b2}'}
            _report(res, rec, f'{spec_name}:{kind}: a supported precision pair ({b1} or {b2}) is rejected: {c2}', selftest)
            continue
        r, m = ex.check(st.e_lt(c2, c1))
        if r == 'unknown':
            res.inconclusive.append(f'bits {spec_name}:{kind}:{b1}->{b2}: unknown')
            continue
        res.oblige(r == 'unsat')
        if r == 'sat':
            a = _model_vals(m, v)
            rec = {'spec': spec_name, 'kind': kind, 'cfg': _cfg_json(cfg_of(b1)), 'cfg2': _cfg_json(cfg_of(b2)), 'a': a, 'b': a,
                   'observable': 'bits', 'key': f'{spec_name}|{kind}|bits:{b1}->{b2}'}
            _report(res, rec, f'{spec_name}:{kind}: cost decreases when bits grow {b1}->{b2} at {jsonable(a)}', selftest)
        elif selftest and b1['wp'] == 2:
            res.violations.append({'key': 'bits|selftest', 'what': 'seeded'})
    res.absorb(ex)


# ---------------------------------------------------------------------------------------------------------------------
def _run_dw(res, tier, selftest):
    """hardware-independent size / operation counts: depthwise formula == generic formula evaluated per group"""
    for spec_name in ('params', 'params_no_bias', 'params_bit', 'ops', 'ops_no_bias', 'ops_bit'):
        for kind in ('conv1d_dw', 'conv2d_dw'):
            for cfg in configs(spec_name, kind, tier):
                def fn(ex):
                    with SymMode():
                        d, v = _dims(ex, kind, cfg)
                        cdw = _val(eval_cost(spec_name, kind, d))
                        one = dict(v, cin=z3.IntVal(1), cout=z3.IntVal(1))
                        dg, _ = _dims(ex, kind.replace('_dw', ''), cfg, shared=one)
                        cg = _val(generic_one_group(spec_name, kind.replace('_dw', ''), dg))
                    return v, cdw, cg
                ex = Explorer(timeout_ms=Q)
                for pc, (v, cdw, cg) in ex.explore(fn):
                    want = st.e_mul(cg, v['cout'])
                    if selftest:
                        want = st.e_add(want, 1)
                    r, m = ex.check(st.e_ne(cdw, want))
                    if r == 'unknown':
                        res.inconclusive.append(f'dw {spec_name}:{kind}: unknown')
                        continue
                    res.oblige(r == 'unsat')
                    if r == 'sat':
                        a = _model_vals(m, v)
                        rec = {'spec': spec_name, 'kind': kind, 'cfg': _cfg_json(cfg), 'a': a, 'observable': 'dw_vs_generic',
                               'key': f'{spec_name}|{kind}|dw_vs_generic|bias={cfg.get("bias")}'}
                        _report(res, rec, f'{spec_name}:{kind}: depthwise formula != generic per group at {jsonable(a)}', selftest)
                res.absorb(ex)


def _run_grouped(res, tier, selftest):
    """size / operation counts do not decrease when a depthwise layer (g -> g channels, g groups) gets more output or input channels with the same
    groups (g -> 2g or 2g -> g channels, g groups: a grouped, no longer depthwise convolution)"""
    for spec_name in ('params', 'params_no_bias', 'params_bit', 'ops', 'ops_no_bias', 'ops_bit'):
        for kind in ('conv1d', 'conv2d'):
            for cfg in configs(spec_name, kind, tier)[:2]:
                for grow in ('cout', 'cin'):
                    def fn(ex):
                        with SymMode():
                            g = z3.Int('g')
                            ex.assume(g >= 2, g <= 64)
                            o0, o1 = z3.Int('out0'), z3.Int('out1')
                            ex.assume(o0 >= 1, o0 <= 33, o1 >= 1, o1 <= 33)
                            v = {'cin': g, 'cout': g, 'out0': o0, 'out1': o1}
                            ddw, _ = _dims(ex, kind + '_dw', cfg, shared=v)
                            cdw = _val(eval_cost(spec_name, kind + '_dw', ddw))
                            v2 = dict(v)
                            v2[grow] = 2 * g
                            dgr, _ = _dims(ex, kind, cfg, shared=v2)
                            dgr['groups'] = _t(g)
                            cgr = _val(eval_cost(spec_name, kind, dgr))
                        return v, cdw, cgr
                    ex = Explorer(timeout_ms=Q)
                    for pc, (v, cdw, cgr) in ex.explore(fn):
                        r, m = ex.check(st.e_lt(cgr, cdw))
                        if r == 'unknown':
                            res.inconclusive.append(f'grouped {spec_name}:{kind}:{grow}: unknown')
                            continue
                        res.oblige(r == 'unsat')
                        if r == 'sat':
                            a = _model_vals(m, v)
                            rec = {'spec': spec_name, 'kind': kind, 'cfg': _cfg_json(cfg), 'a': a, 'grow': grow, 'observable': 'grouped_mono',
                                   'key': f'{spec_name}|{kind}|mono:depthwise->grouped:{grow}'}
                            _report(res, rec, f'{spec_name}:{kind}: cost decreases when a depthwise layer with {jsonable(a)} channels/groups doubles its {grow} (same groups)', selftest)
                    res.absorb(ex)


# ---------------------------------------------------------------------------------------------------------------------
def _reject_case(spec_name, kind, cfg):
    """returns (rejected: bool, message) on plain torch"""
    d = dict(cfg)
    d['k'] = tuple(d['k'])
    d['cin'] = torch.tensor(float(d.pop('cin_v', 8)))
    d['cout'] = torch.tensor(float(d.pop('cout_v', 8)))
    if kind.endswith('_dw'):
        d['cin'] = d['cout']
        d['groups'] = float(d['cout'])
    elif 'groups' in d:
        pass
    d['out'] = (4, 4)
    if spec_name.startswith('mpic'):
        d['wp'] = torch.tensor(d['wp'])
        d['ip'] = torch.tensor(d['ip'])
    if spec_name == 'ne16_latency':
        d['theta'] = torch.tensor(1.0)
    try:
        r = eval_cost(spec_name, kind, d)
        return False, f'accepted, returned {float(r)}'
    except (AssertionError, ValueError, KeyError) as e:
        return True, f'{type(e).__name__}'


def _run_reject(res, selftest):
    cases = []
    for kind in KINDS['mpic_latency']:
        for sp in ('mpic_latency', 'mpic_energy'):
            for ip in (0, 3, 16):
                cases.append((sp, kind, {'k': (3, 3), 'wp': 8, 'ip': ip, 'bias': True}, True))
            for wp in (3, 16):
                cases.append((sp, kind, {'k': (3, 3), 'wp': wp, 'ip': 8, 'bias': True}, True))
            cases.append((sp, kind, {'k': (3, 3), 'wp': 4, 'ip': 4, 'bias': True}, False))
    for kind in KINDS['ne16_latency']:
        for ip in (2, 4):
            cases.append(('ne16_latency', kind, {'k': (3, 3) if kind != 'linear' else (1, 1), 'wp': 8, 'ip': ip}, True))
        cases.append(('ne16_latency', kind, {'k': (3, 3) if kind != 'linear' else (1, 1), 'wp': 8, 'ip': 8}, False))
    # every kernel of the grid {1,3,5,7}^2 the accelerator does not execute (non-square ones included)
    for k0 in (1, 3, 5, 7):
        for k1 in (1, 3, 5, 7):
            if (k0, k1) not in ((1, 1), (3, 3)):
                cases.append(('ne16_latency', 'conv2d', {'k': (k0, k1), 'wp': 8, 'ip': 8}, True))
            if (k0, k1) != (3, 3):
                cases.append(('ne16_latency', 'conv2d_dw', {'k': (k0, k1), 'wp': 8, 'ip': 8}, True))
    for kind in KINDS['diana_latency']:
        for wp in (0, 2, 4, 8):
            for ap in (0, 2, 4, 8):
                ok = (wp, ap) in ((2, 8), (8, 8))
                cases.append(('diana_latency', kind, {'k': (3, 3) if kind != 'linear' else (1, 1), 'wp': wp, 'ap': ap}, not ok))
    cases.append(('diana_latency', 'conv2d', {'k': (3, 3), 'wp': 2, 'ap': 8, 'groups': 2}, True))
    n = 0
    for sp, kind, cfg, must_reject in cases:
        # symbolic channels: the rejection must not depend on the layer size (decided on every feasible path)
        def fn(ex):
            with SymMode():
                c = dict(cfg)
                groups = c.pop('groups', None)
                d, v = _dims(ex, kind, c)
                if groups is not None:
                    d['groups'] = groups
                if sp.startswith('mpic'):
                    d['wp'] = torch.tensor(cfg['wp'])
                    d['ip'] = torch.tensor(cfg['ip'])
                if sp == 'ne16_latency':
                    d['theta'] = _t(Fraction(1))
                try:
                    r = eval_cost(sp, kind, d)
                    rej = False
                except (AssertionError, ValueError, KeyError):
                    rej = True
                r_, m = ex.must()
            return rej, _model_vals(m, v)
        ex = Explorer(timeout_ms=Q)
        for pc, (rej, a) in ex.explore(fn):
            ok = rej == must_reject
            if selftest and n == 0:
                ok = False
            n += 1
            res.oblige(ok)
            if ok:
                cfgr = dict(_cfg_json(cfg), cin_v=a['cin'], cout_v=a['cout'])
                rj, msg = _reject_case(sp, kind, cfgr)
                if rj == rej:
                    res.validated += 1
                else:
                    res.errors.append(f'concolic mismatch reject {sp}:{kind}:{cfg}: engine {rej} torch {rj}')
            else:
                cfgr = dict(_cfg_json(cfg), cin_v=a['cin'], cout_v=a['cout'])
                rec = {'spec': sp, 'kind': kind, 'cfg': _cfg_json(cfg), 'cfg_reject': cfgr, 'observable': 'reject',
                       'key': f'{sp}|{kind}|{"accepts-unsupported" if must_reject else "rejects-supported"}|{ {k: v for k, v in _cfg_json(cfg).items() if k in ("wp", "ip", "ap", "k", "groups")} }'}
                if must_reject:
                    _report(res, rec, f'{sp}:{kind} accepts unsupported configuration {cfg}', selftest)
                else:
                    # a supported configuration that raises: replay expects "accepted"
                    rj, msg = _reject_case(sp, kind, cfgr)
                    if rj:
                        rec['what'] = f'{sp}:{kind} rejects supported configuration {cfg}: {msg}'
                        res.violations.append(jsonable(rec))
                    else:
                        res.errors.append(f'non reproducing rejection {sp}:{kind}:{cfg}')
        res.absorb(ex)
        res.sample({'reject_case': [sp, kind, _cfg_json(cfg), must_reject]})


# ---------------------------------------------------------------------------------------------------------------------
def _mods():
    import importlib
    return tuple(importlib.import_module('plinio.cost.' + n) for n in ('gap8_latency', 'ne16_latency', 'diana_latency'))


def _helper_concrete(rec):
    G, N, D = _mods()
    name, a, b = rec['helper'], int(rec['a_v']), int(rec['b_v'])
    fns = {'gap8.FloorSTE': (G.FloorSTE, lambda a, b: -(-a // b)), 'diana.FloorSTE': (D.FloorSTE, lambda a, b: -(-a // b)),
           'ne16.FloorDivideSTE': (N.FloorDivideSTE, lambda a, b: a // b), 'ne16.DivAndCeilSTE': (N.DivAndCeilSTE, lambda a, b: -(-a // b)),
           'ne16.ModuloSTE': (N.ModuloSTE, lambda a, b: a % b)}
    F_, ref = fns[name]
    got = float(F_.apply(torch.tensor(float(a)), b))
    return got != ref(a, b), f'{name}({a},{b}) = {got}, exact = {ref(a, b)}'


def _run_helpers(res, selftest):
    G, N, D = _mods()
    table = [('gap8.FloorSTE', G.FloorSTE, 'ceil', (2, 4, 8)), ('diana.FloorSTE', D.FloorSTE, 'ceil', (16, 128, 512)),
             ('ne16.FloorDivideSTE', N.FloorDivideSTE, 'floor', (3, 8, 16, 32)), ('ne16.DivAndCeilSTE', N.DivAndCeilSTE, 'ceil', (3, 4, 8, 16, 256)),
             ('ne16.ModuloSTE', N.ModuloSTE, 'mod', (3, 16, 32))]
    for name, F_, what, Ns in table:
        for Nn in Ns:
            def fn(ex):
                with SymMode():
                    a = z3.Int('a')
                    ex.assume(a >= 0 if what != 'ceil' or 'DivAndCeil' not in name else a >= 1, a <= 4096)
                    out = _val(F_.apply(_t(a), Nn))
                    # exact reference on integers: q = floor(a / N)
                    q = z3.Int('q')
                    ex.assume(q * Nn <= a, a < (q + 1) * Nn)
                    ref = {'floor': q, 'mod': a - q * Nn, 'ceil': z3.If(a - q * Nn == 0, q, q + 1)}[what]
                    if selftest and what == 'ceil':
                        ref = q
                    # backward passes the incoming gradient through unchanged
                    g = z3.Real('g')
                    back = F_.backward(None, _t(g))
                    gb = _val(back[0] if isinstance(back, tuple) else back)
                return a, out, ref, g, gb
            ex = Explorer(timeout_ms=Q)
            for pc, (a, out, ref, g, gb) in ex.explore(fn):
                r, m = ex.must(st.e_ne(out, ref))
                res.oblige(r == 'unsat')
                if r == 'sat':
                    av = m.eval(a, True).as_long()
                    rec = {'helper': name, 'a_v': av, 'b_v': Nn, 'observable': 'helper', 'spec': name, 'kind': '', 'cfg': {},
                           'key': f'helper|{name}|N={Nn}'}
                    _report(res, rec, f'{name}(a={av}, N={Nn}) differs from exact {what}', selftest)
                r, m = ex.must(st.e_ne(gb, g))
                res.oblige(r == 'unsat')
                if r == 'sat':
                    res.violations.append({'key': f'helper|{name}|backward', 'what': f'{name}.backward does not pass the gradient through'})
            res.absorb(ex)
            res.sample({'helper': name, 'N': Nn, 'range': '0..4096'})
    # GateSTE: forward is the indicator ch >= th; backward returns a finite gradient
    def fn(ex):
        with SymMode():
            ch = z3.Real('ch')
            ex.assume(ch >= 0, ch <= 130)
            out = _val(D.GateSTE.apply(_t(ch), 1.))
        return ch, out
    ex = Explorer(timeout_ms=Q)
    for pc, (ch, out) in ex.explore(fn):
        r, m = ex.must(st.e_ne(out, z3.If(ch >= 1, z3.RealVal(1), z3.RealVal(0))))
        res.oblige(r == 'unsat')
        if r == 'sat':
            res.violations.append({'key': 'helper|GateSTE|forward', 'what': f'GateSTE forward wrong at ch={m.eval(ch, True)}'})
    res.absorb(ex)
    # FP32 lemma: in float32, floor((c + N - 1) / N) == ceil(c / N) for integer-valued c <= 4096 (bit-precise, z3 FP theory)
    for Nn in (2, 4, 8, 16, 128, 512):
        s = z3.Solver()
        s.set('timeout', Q)
        F32 = z3.Float32()
        rm = z3.RNE()
        c = z3.FP('c', F32)      # any float32 holding an integer in [0, 4096]
        s.add(z3.fpGEQ(c, z3.FPVal(0.0, F32)), z3.fpLEQ(c, z3.FPVal(4096.0, F32)), z3.fpEQ(c, z3.fpRoundToIntegral(z3.RTZ(), c)))
        num = z3.fpAdd(rm, c, z3.FPVal(float(Nn - 1), F32))
        quo = z3.fpDiv(rm, num, z3.FPVal(float(Nn), F32))
        fl = z3.fpRoundToIntegral(z3.RTN(), quo)
        # N is a power of two, so c / N is exact in float32 and its round-up is the exact ceiling
        ce = z3.fpRoundToIntegral(z3.RTP(), z3.fpDiv(rm, c, z3.FPVal(float(Nn), F32)))
        s.add(z3.Not(z3.fpEQ(fl, ce)))
        t0 = time.time()
        r = s.check()
        res.queries += 1
        res.solver_s += time.time() - t0
        if r == z3.unknown:
            res.inconclusive.append(f'FP32 lemma N={Nn}: unknown')
        else:
            res.oblige(r == z3.unsat)
            if r == z3.sat:
                cv = int(float(s.model().eval(z3.fpToReal(c), True).as_fraction()))
                rec = {'helper': 'gap8.FloorSTE', 'a_v': cv, 'b_v': Nn, 'observable': 'helper', 'spec': 'fp32', 'kind': '', 'cfg': {},
                       'key': f'helper|fp32-floor|N={Nn}'}
                _report(res, rec, f'float32 floor((c+N-1)/N) != ceil(c/N) at c={cv}, N={Nn}', selftest)
    res.paths += 1
