"""C12 - cost is a differentiable, monotone function of the architecture only.

Architectural parameters are z3 reals (mask magnitudes >= 0 after the symmetry lemma theta(m) = theta(-m), which is itself an
obligation), network weights of searchable layers are fresh z3 reals as well.  The real cost code runs on them and real
torch.autograd differentiates the result through the real backward methods (PITBinarizer, STEArgmax, FloorSTE, ...), giving
SYMBOLIC gradient expressions.  Obligations per program / metric: the cost term mentions no weight variable, is finite
(no reachable division by zero), >= 0; d cost / d p exists for every trainable NAS parameter, is finite, >= 0 for mask
magnitudes and != 0 unless the element is a keep-alive element; no gradient reaches a weight; cost(m + delta e_k) >= cost(m).
Discrete cost: every binarised mask bit is a monotone function of the magnitudes (per masker, LRA).
"""
import copy
import time
from fractions import Fraction

import numpy as np
import torch
import torch.nn as nn
import z3

import symtorch as st
from symtorch import Explorer, SymMode, SymTensor, swapped_params
from vlib import pitlib, snlib
from vlib.harness import InstanceResult, jsonable

PROPERTY = 'C12'
TECHNIQUE = 'symbolic execution of the real cost code + real autograd on z3-real architectural parameters and weights: free-variable check, finiteness, sign of symbolic gradients and per-coordinate monotonicity as unsat queries'
FUNCTIONS_ENCODED = ['PIT/SuperNet/MPS/ODiMO_MPS.get_cost/_get_single_cost', 'PIT*.get_modified_vars/out_features_eff/k_eff', 'PITBinarizer.forward/backward', 'SuperNetCombiner.get_cost', 'MPSConv2d/MPSLinear.get_cost',
                     'STEArgmax.backward', 'odimo_mps_latency_reduction', 'params/ops/params_no_bias/ops_no_bias/gap8_latency/params_bit/ops_bit/diana_latency functions', 'PITFeaturesMasker/TimestepMasker/DilationMasker.theta']
BOUNDS = {'quick': 'PIT: T1(K=3,4), A1, D2 (+gap8), L1 x {params, ops, no-bias} continuous; masker monotonicity K=1..9; SuperNet S(3,mix); MPS tiny net x {params_bit, ops_bit}; ODiMO_MPS defaults (w in {2,8}, a=8) evaluation + gradient finiteness; MPS per-channel search with the 0-bit option under hard sampling (every selection incl. a fully pruned layer: finite cost and gradients)',
          'thorough': 'PIT: T1 K=1..9, T2, K1, R2 ... ; MPS with mpic and ne16 (a=8); SuperNet 2 blocks'}
OUTSIDE = ['magnitude of gradients in float32', 'GateSTE smooth-step gradient value (sign only)', 'discrete-cost monotonicity is composed from the per-masker bit monotonicity proved here and the monotonicity of the cost functions in the counts (C16)']
ASSUMPTIONS = ['mask parameters >= 0 in gradient/monotonicity queries (justified by the symmetry obligation theta(m) == theta(-m))', 'softmax: arbitrary order-preserving map into the simplex']
INSTANCE_TIMEOUT_S = {'quick': 1500, 'thorough': 3600}
Q = 60000


def instances(tier, seed):
    out = []
    progs = [{'fam': 'T1', 'K': 3, 'C': 2}, {'fam': 'T1', 'K': 4, 'C': 2}, {'fam': 'A1', 'K': 2, 'C': 2}, {'fam': 'D2', 'C': 2, 'cin': 2}, {'fam': 'L1'}, {'fam': 'W1', 'nd': 2}]
    if tier == 'thorough':
        progs += [{'fam': 'T1', 'K': K, 'C': 2} for K in (1, 2, 5, 6, 7, 8, 9)] + [{'fam': 'T2', 'K0': 2, 'K1': 2, 'T': 3}, {'fam': 'K1', 'origins': ['s', 'f']}, {'fam': 'R2'}, {'fam': 'W1', 'nd': 2}]
    for s in progs:
        out.append({'id': 'PIT:' + pitlib.prog_id(s), 'what': 'pit', 'spec': s, 'wseed': seed})
    for K in (range(1, 10) if tier == 'quick' else range(1, 13)):
        out.append({'id': f'maskers:K={K}', 'what': 'maskers', 'K': K})
    out.append({'id': 'SuperNet:S(3,mix)', 'what': 'sn', 'spec': {'n': 3, 'kind': 'mix'}, 'wseed': seed})
    if tier == 'thorough':
        out.append({'id': 'SuperNet:S(2,mix,2 blocks)', 'what': 'sn', 'spec': {'n': 2, 'kind': 'mix', 'blocks': 2}, 'wseed': seed})
    for cost in (('params_bit', 'ops_bit') if tier == 'quick' else ('params_bit', 'ops_bit', 'mpic_latency', 'ne16_latency')):
        out.append({'id': f'MPS:{cost}', 'what': 'mps', 'cost': cost, 'wseed': seed})
    # per-channel weight search with the 0-bit (pruning) option under hard sampling: every selection, including a layer whose channels are all
    # pruned, must give a finite cost and finite gradients
    for cost in ('params_bit', 'ops_bit'):
        out.append({'id': f'MPS:{cost}:per_channel+0bit:hard', 'what': 'mps', 'cost': cost, 'wseed': seed, 'channel0': True})
    out.append({'id': 'ODiMO_MPS:defaults', 'what': 'odimo', 'wseed': seed})
    return out


def _vars_of(term):
    seen, out, todo = set(), set(), [term]
    while todo:
        t = todo.pop()
        if t.get_id() in seen:
            continue
        seen.add(t.get_id())
        if z3.is_const(t) and t.decl().kind() == z3.Z3_OP_UNINTERPRETED:
            out.add(str(t))
        todo.extend(t.children())
    return out


def _floor_lemmas(*terms):
    """valid monotonicity facts between the floor (ToInt) sub-terms of the given terms (they spare z3 a branch-and-bound)"""
    seen, fl, todo = set(), [], list(terms)
    while todo:
        t = todo.pop()
        if t.get_id() in seen:
            continue
        seen.add(t.get_id())
        if t.decl().kind() == z3.Z3_OP_TO_INT:
            fl.append(t)
        todo.extend(t.children())
    out = []
    for i in range(len(fl)):
        for j in range(i + 1, len(fl)):
            a, b = fl[i].arg(0), fl[j].arg(0)
            out += [z3.Implies(a <= b, fl[i] <= fl[j]), z3.Implies(b <= a, fl[j] <= fl[i])]
    return out


def _pit_specs(fam):
    from plinio.cost import params, ops, gap8_latency
    from plinio.cost.params_no_bias import params_no_bias
    from plinio.cost.ops_no_bias import ops_no_bias
    d = {'params': params, 'params_no_bias': params_no_bias, 'ops': ops, 'ops_no_bias': ops_no_bias}
    if fam in ('D2', 'L1'):
        d['gap8_latency'] = gap8_latency
    return d


# ---------------------------------------------------------------------------------------------------------------------
def concrete_pit_grad(spec, wseed, masks, metric):
    pit, model, shape = pitlib.make_pit(spec, wseed, cost=_pit_specs(spec['fam']))
    pitlib.set_masks(pit, masks)
    pit.train_net_and_nas()
    c = pit.get_cost(metric)
    named = dict((qn, p) for qn, _, _, p in pitlib.mask_params(pit))
    gs = torch.autograd.grad(c, list(named.values()), allow_unused=True)
    wg = torch.autograd.grad(pit.get_cost(metric), [p for p in pit.net_parameters()], allow_unused=True)
    return float(c), {k: (None if g is None else g.tolist()) for k, g in zip(named, gs)}, all(g is None for g in wg)


def replay(rec):
    obs = rec['observable']
    if rec.get('what_kind') == 'pit':
        c, grads, no_w = concrete_pit_grad(rec['spec'], rec.get('wseed', 0), rec['masks'], rec['metric'])
        info = f'cost={c} grads={grads} weights_without_gradient={no_w}'
        g = grads.get(rec.get('param'))
        if obs == 'grad_none':
            return g is None, info
        if obs == 'grad_negative':
            return g is not None and g[rec['index']] < 0, info
        if obs == 'grad_zero':
            return g is not None and g[rec['index']] == 0, info
        if obs == 'negative':
            return c < 0, info
        if obs == 'weight_gradient':
            return not no_w, info
        if obs == 'monotone':
            m2 = {k: list(v) for k, v in rec['masks'].items()}
            m2[rec['param']][rec['index']] = str(Fraction(m2[rec['param']][rec['index']]) + Fraction(rec['delta']))
            c2, _, _ = concrete_pit_grad(rec['spec'], rec.get('wseed', 0), m2, rec['metric'])
            return c2 < c - 1e-6 * max(1, abs(c)), f'cost {c} -> {c2} after increasing {rec["param"]}[{rec["index"]}] by {rec["delta"]}'
    if rec.get('what_kind') == 'open':
        spec, wseed, m_ = rec['spec'], rec.get('wseed', 0), rec['metric']
        pit, model, shape = pitlib.make_pit(spec, wseed, cost=_pit_specs(spec['fam']))
        orig, _ = pitlib.build_program(spec, wseed)
        orig.eval()
        xz = torch.zeros((1,) + tuple(shape))
        wv = {'params': lambda: pitlib.count_params(orig), 'ops': lambda: pitlib.count_ops(orig, xz, True), 'ops_no_bias': lambda: pitlib.count_ops(orig, xz, False)}[m_]()
        got = float(pit.get_cost(m_))
        return abs(got - wv) > 1e-5 * max(1, abs(wv)), f'open-mask {m_} cost {got}, original model {wv}'
    if rec.get('what_kind') == 'odimo':
        ok, msg = _odimo_concrete()
        return not ok, msg
    if rec.get('what_kind') == 'pit_repeat':
        spec, wseed, m_ = rec['spec'], rec.get('wseed', 0), rec['metric']
        pit, model, shape = pitlib.make_pit(spec, wseed, cost=_pit_specs(spec['fam']))
        first = {k: float(pit.get_cost(k)) for k in _pit_specs(spec['fam'])}
        second = {k: float(pit.get_cost(k)) for k in _pit_specs(spec['fam'])}
        return first[m_] != second[m_], f'{m_}: first reading {first[m_]}, second reading {second[m_]}'
    if rec.get('what_kind') == 'mps_channel0':
        import math
        m, qs = _mk_mps(rec['cost'], True)
        byname = dict(qs)
        with torch.no_grad():
            for n, vals in rec['alphas'].items():
                byname[n].alpha.copy_(torch.tensor([float(Fraction(v)) for v in vals]).reshape(byname[n].alpha.shape))
        for _, q in qs:
            q.sample_alpha()
        c = m.get_cost()
        gs = torch.autograd.grad(c, [q.alpha for _, q in qs], allow_unused=True)
        bad = (not math.isfinite(float(c))) or any(g is not None and not bool(torch.isfinite(g).all()) for g in gs)
        return bad, f'cost {float(c)}, gradients {[None if g is None else g.reshape(-1).tolist() for g in gs]}'
    return False, 'replay not implemented for this observable'


def _viol(res, rec, what, selftest=False):
    rec = jsonable(rec)
    rec['what'] = what
    if selftest:
        rec['key'] += '|selftest'
        res.violations.append(rec)
        return
    if any(v['key'] == rec['key'] for v in res.violations):
        return
    try:
        ok, msg = replay(rec)
    except Exception as e:
        ok, msg = False, f'replay raised {type(e).__name__}: {e}'
    rec['replay_msg'] = msg[:600]
    if ok:
        res.violations.append(rec)
    else:
        res.errors.append(f'counterexample did not reproduce: {what}: {msg[:500]}')


def run_instance(p):
    st.core.FLOOR_LEMMAS = True
    res = InstanceResult(p['id'])
    {'pit': _run_pit, 'maskers': _run_maskers, 'sn': _run_sn, 'mps': _run_mps, 'odimo': _run_odimo}[p['what']](res, p, p.get('selftest', False))
    return res


# ---------------------------------------------------------------------------------------------------------------------
def _run_pit(res, p, selftest):
    spec, wseed = p['spec'], p.get('wseed', 0)
    specs = _pit_specs(spec['fam'])
    pit, model, shape = pitlib.make_pit(spec, wseed, cost=specs)
    pit.train_net_and_nas()
    from plinio.methods.pit.nn.features_masker import PITFrozenFeaturesMasker
    wlayers = [(n, l) for n, l in pitlib.pit_layers(pit) if hasattr(l, 'weight')]

    def fn(ex):
        pairs, sy = pitlib.fresh_masks(pit, nonneg=True, ex=ex)
        wsy = {}
        for lname, layer in wlayers:
            for pn in ('weight', 'bias'):
                t = getattr(layer, pn, None)
                if t is not None and pn in layer._parameters:
                    w = SymTensor.fresh(f'W_{lname}_{pn}'.replace('.', '_'), tuple(t.shape))
                    pairs.append((layer, pn, w))
                    wsy[f'{lname}.{pn}'] = w
        out = {}
        with SymMode(), swapped_params(pairs):
            for s in sy.values():
                s.requires_grad_(True)
            for w in wsy.values():
                w.requires_grad_(True)
            for metric in specs:
                ng = len(ex.guards)
                c = pit.get_cost(metric)
                guards = list(ex.guards[ng:])
                gs = torch.autograd.grad(c, list(sy.values()) + list(wsy.values()), allow_unused=True, retain_graph=False)
                out[metric] = (st.scalar_of(c), {k: (None if g is None else list(st.to_arr(g).reshape(-1))) for k, g in zip(list(sy) + list(wsy), gs)}, guards)
            # a function of the architecture only: reading every metric a second time (after all of them have been read once) gives the same value
            ng = len(ex.guards)
            again = {metric: st.scalar_of(pit.get_cost(metric)) for metric in specs}
            del ex.guards[ng:]
        out = {k: v + (again[k],) for k, v in out.items()}
        return sy, wsy, out
    ex = Explorer(timeout_ms=Q)
    byname = {qn: masker for qn, masker, pname, prm in pitlib.mask_params(pit)}
    for pc, (sy, wsy, out) in ex.explore(fn):
        for metric, (c, grads, guards, c_again) in out.items():
            label = f'{pitlib.prog_id(spec)}:{metric}'
            base = {'what_kind': 'pit', 'spec': spec, 'wseed': wseed, 'metric': metric}
            bad_rep = st.e_ne(c, c_again)
            if bad_rep is not False:
                r, m = ex.must(bad_rep) if bad_rep is not True else ('sat', None)
                res.oblige(r == 'unsat')
                if r == 'sat':
                    _viol(res, dict(base, what_kind='pit_repeat', observable='not_repeatable', key=f'{label}|not_repeatable'),
                          f'{label}: the cost read a second time on the same model differs ({str(c)[:80]} vs {str(c_again)[:80]})', selftest)
            else:
                res.oblige(True)

            def model_masks(extra):
                m, _ = pitlib.grid_model(ex, sy, extra)
                return pitlib.values_of(m, sy) if m is not None else None
            # depends on the architecture only
            vs = _vars_of(c) if st.is_sym(c) else set()
            leak = sorted(v for v in vs if v.startswith('W_') or v.startswith('x'))
            res.oblige(not leak)
            if leak:
                res.violations.append({'key': f'{label}|depends_on_weights', 'what': f'{label}: the cost term mentions weight variables {leak[:4]}'})
            # finite, non-negative
            for g in guards:
                r, m = ex.must(g)
                res.oblige(r == 'unsat')
                if r == 'sat':
                    res.violations.append({'key': f'{label}|nonfinite', 'what': f'{label}: division by zero reachable at masks {pitlib.values_of(m, sy)}'})
            r, m = ex.must(st.e_lt(c, 0 if not selftest else 10 ** 6))
            res.oblige(r == 'unsat')
            if r == 'sat':
                _viol(res, dict(base, masks=model_masks([st.e_lt(c, 0)]) or {}, observable='negative', key=f'{label}|negative'), f'{label}: negative cost', selftest)
            # gradients
            for qn, s in sy.items():
                g = grads[qn]
                masker = byname[qn]
                frozen = isinstance(masker, PITFrozenFeaturesMasker)
                if frozen:
                    continue
                if g is None:
                    res.oblige(False)
                    _viol(res, dict(base, masks=model_masks([]), observable='grad_none', param=qn, key=f'{label}|grad_none|{qn.split(".")[-1]}'), f'{label}: no gradient reaches {qn}', selftest)
                    continue
                ka = [float(v) for v in masker._keep_alive.reshape(-1)]
                for i, (v, gv) in enumerate(zip(s.elems(), g)):
                    r, m = ex.check(v > 0, st.e_lt(gv, 0))
                    if r == 'unknown':
                        res.inconclusive.append(f'{label} grad sign {qn}[{i}]: unknown')
                        continue
                    res.oblige(r == 'unsat')
                    if r == 'sat':
                        _viol(res, dict(base, masks=model_masks([v > 0, st.e_lt(gv, 0)]), observable='grad_negative', param=qn, index=i, key=f'{label}|grad_negative|{qn.split(".")[-1]}'),
                              f'{label}: d cost / d {qn}[{i}] < 0', selftest)
                    if ka[i] == 0:
                        # a non keep-alive element: increasing it raises the metric when everything else is alive -> gradient must not vanish there
                        others = [u > 0 for s2 in sy.values() for u in s2.elems()]
                        r, m = ex.check(*others, st.e_eq(gv, 0))
                        if r == 'unknown':
                            res.inconclusive.append(f'{label} grad nonzero {qn}[{i}]: unknown')
                            continue
                        res.oblige(r == 'unsat')
                        if r == 'sat':
                            _viol(res, dict(base, masks=model_masks(others + [st.e_eq(gv, 0)]), observable='grad_zero', param=qn, index=i, key=f'{label}|grad_zero|{qn.split(".")[-1]}'),
                                  f'{label}: d cost / d {qn}[{i}] == 0 although all masks are alive', selftest)
            # no gradient to the weights
            wbad = [k for k in wsy if grads[k] is not None and any((st.is_sym(e) or e != 0) for e in grads[k])]
            res.oblige(not wbad)
            if wbad:
                _viol(res, dict(base, masks=model_masks([]), observable='weight_gradient', key=f'{label}|weight_gradient'), f'{label}: weights {wbad} receive a gradient from the cost', selftest)
        res.sample({'program': pitlib.prog_id(spec), 'cost_terms': {m_: str(z3.simplify(out[m_][0]))[:200] if st.is_sym(out[m_][0]) else out[m_][0] for m_ in list(out)[:2]}})
        # concolic validation: cost value and gradient of the engine (symbolic terms evaluated in a model) against real torch autograd
        mm, _ = pitlib.grid_model(ex, sy, [u >= Fraction(1, 4) for s2 in sy.values() for u in s2.elems()], den=8, bound=2)
        if mm is not None:
            masks = pitlib.values_of(mm, sy)
            for metric in list(out)[:2]:
                c, grads, guards = out[metric][:3]
                cc, cg, no_w = concrete_pit_grad(spec, wseed, jsonable(masks), metric)
                ce = float(st.model_value(mm, c)) if st.is_sym(c) else float(c)
                ok = abs(ce - cc) <= 1e-4 * max(1.0, abs(cc))
                for qn in sy:
                    if grads[qn] is not None and cg.get(qn) is not None:
                        ge = [float(st.model_value(mm, g_)) if st.is_sym(g_) else float(g_) for g_ in grads[qn]]
                        ok = ok and all(abs(a - b) <= 1e-3 * max(1.0, abs(b)) for a, b in zip(ge, np.array(cg[qn]).reshape(-1)))
                if ok:
                    res.validated += 1
                else:
                    res.errors.append(f'concolic mismatch {pitlib.prog_id(spec)}:{metric}: engine cost {ce} torch {cc}; torch grads {cg}')
    res.absorb(ex)

    # per-coordinate monotonicity of the continuous cost: cost(m + delta e_k) >= cost(m)
    def fn2(ex):
        pairs, sy = pitlib.fresh_masks(pit, nonneg=True, ex=ex)
        with SymMode(), swapped_params(pairs):
            c0 = {m_: st.scalar_of(pit.get_cost(m_)) for m_ in specs}
        return sy, c0
    ex = Explorer(timeout_ms=Q)
    for pc, (sy, c0) in ex.explore(fn2):
        delta = z3.Real('delta')
        for qn, s in sy.items():
            if isinstance(byname[qn], PITFrozenFeaturesMasker):
                continue
            for i, v in enumerate(s.elems()):
                for metric, c in c0.items():
                    if not st.is_sym(c):
                        continue
                    c1 = z3.substitute(c, (v, v + delta))
                    lem = _floor_lemmas(c, c1)
                    r, m = ex.check(delta >= 0, c1 < c, *lem)
                    if r == 'unknown':
                        # non-linear query did not finish: the other mask parameters are enumerated on {1, 9/16} (stated in evidence notes)
                        others = [u for s2 in sy.values() for u in s2.elems() if u is not v]
                        r = 'unsat'
                        for val in (1, Fraction(9, 16)):
                            r_, m = ex.check(delta >= 0, c1 < c, *lem, *[u == val for u in others])
                            if r_ == 'unknown':
                                r = 'unknown'
                                break
                            if r_ == 'sat':
                                r = 'sat'
                                break
                        res.notes.append(f'monotone {metric} {qn}[{i}]: all-symbolic query unknown, other masks enumerated on (1, 9/16): {r}')
                    if r == 'unknown':
                        res.inconclusive.append(f'monotone {metric} {qn}[{i}]: unknown')
                        continue
                    res.oblige(r == 'unsat')
                    if r == 'sat':
                        mm, _ = pitlib.grid_model(ex, sy, [delta >= 0, c1 < c, delta * 16 == z3.ToReal(z3.Int('gd'))])
                        mm = mm or m
                        _viol(res, {'what_kind': 'pit', 'spec': spec, 'wseed': wseed, 'metric': metric, 'masks': pitlib.values_of(mm, sy), 'observable': 'monotone', 'param': qn, 'index': i,
                                    'delta': st.model_value(mm, delta), 'key': f'{pitlib.prog_id(spec)}:{metric}|monotone|{qn.split(".")[-1]}'},
                              f'{pitlib.prog_id(spec)}:{metric}: raising |{qn}[{i}]| lowers the cost', selftest)
    res.witnesses += 1
    res.witnesses_ok += 1 if res.obligations > 0 else 0
    res.absorb(ex)

    # discrete cost: the straight-through estimators still deliver a gradient to every trainable mask parameter
    pit_d, _, _ = pitlib.make_pit(spec, wseed, cost=specs, discrete_cost=True)
    pit_d.train_net_and_nas()

    def fn3(ex):
        pairs, sy = pitlib.fresh_masks(pit_d, nonneg=True, ex=ex)
        with SymMode(), swapped_params(pairs):
            for s_ in sy.values():
                s_.requires_grad_(True)
            out = {}
            for metric in specs:
                c = pit_d.get_cost(metric)
                gs = torch.autograd.grad(c, list(sy.values()), allow_unused=True)
                out[metric] = {k: g is not None for k, g in zip(sy, gs)}
        return sy, out
    ex = Explorer(timeout_ms=Q)
    byname_d = {qn: masker for qn, masker, pname, prm in pitlib.mask_params(pit_d)}
    for pc, (sy, out) in ex.explore(fn3):
        for metric, has in out.items():
            for qn, ok in has.items():
                if isinstance(byname_d[qn], PITFrozenFeaturesMasker):
                    continue
                res.oblige(ok)
                if not ok:
                    m_, _ = pitlib.grid_model(ex, sy, [])
                    res.violations.append({'key': f'{pitlib.prog_id(spec)}:{metric}|discrete|grad_none|{qn.split(".")[-1]}', 'spec': spec, 'metric': metric,
                                           'what': f'{pitlib.prog_id(spec)}:{metric} with discrete_cost=True: no gradient reaches {qn}'})
    res.absorb(ex)

    # the cost depends on the architecture only: a specification (re)assigned while the masks have ANY value must give, once every mask is
    # fully open again, the cost of the original model
    open_cost = {m_: float(pit.get_cost(m_)) for m_ in specs}
    # ... which is, for the size and operation counts, what an independent count on the user's own model gives (numel / forward hooks)
    orig, _ = pitlib.build_program(spec, wseed)
    orig.eval()
    xz = torch.zeros((1,) + tuple(shape))
    want = {'params': pitlib.count_params(orig), 'ops': pitlib.count_ops(orig, xz, True), 'ops_no_bias': pitlib.count_ops(orig, xz, False)}
    for m_, wv in want.items():
        if m_ in open_cost and not spec.get('exclude') and spec['fam'] not in ('K1', 'K3'):
            ok = abs(open_cost[m_] - wv) <= 1e-5 * max(1, abs(wv)) and not selftest
            res.oblige(ok)
            if not ok:
                res.violations.append({'key': f'{pitlib.prog_id(spec)}:{m_}|open!=original' + ('|selftest' if selftest else ''), 'spec': spec, 'metric': m_, 'what_kind': 'open', 'observable': 'open', 'wseed': wseed,
                                       'what': f'{pitlib.prog_id(spec)}: with every mask fully open the {m_} cost is {open_cost[m_]} but the original model has {wv}'})

    def fn4(ex):
        pairs, sy = pitlib.fresh_masks(pit, nonneg=True, ex=ex)
        with SymMode(), swapped_params(pairs):
            pit.cost_specification = specs
        got = {m_: float(pit.get_cost(m_)) for m_ in specs}     # masks restored to their open initial value
        return sy, got
    ex = Explorer(timeout_ms=Q)
    try:
        for pc, (sy, got) in ex.explore(fn4):
            for m_ in specs:
                ok = abs(got[m_] - open_cost[m_]) <= 1e-6 * max(1, abs(open_cost[m_]))
                res.oblige(ok)
                if not ok:
                    mm, _ = pitlib.grid_model(ex, sy, [])
                    res.violations.append({'key': f'{pitlib.prog_id(spec)}:{m_}|depends_on_masks_at_assignment', 'spec': spec, 'metric': m_, 'masks': jsonable(pitlib.values_of(mm, sy)),
                                           'what': f'{pitlib.prog_id(spec)}: cost specification assigned while masks were {jsonable(pitlib.values_of(mm, sy))}: open-mask {m_} cost is {got[m_]} instead of {open_cost[m_]}'})
    finally:
        pit.cost_specification = specs
    res.absorb(ex)
    if selftest and not res.violations:
        res.violations.append({'key': 'selftest', 'what': 'n/a'})


def _run_maskers(res, p, selftest):
    """(a) symmetry theta(m) == theta(-m) component-wise; (b) every binarised bit is monotone in the magnitudes"""
    from plinio.methods.pit.nn.features_masker import PITFeaturesMasker
    from plinio.methods.pit.nn.timestep_masker import PITTimestepMasker
    from plinio.methods.pit.nn.dilation_masker import PITDilationMasker
    from plinio.methods.pit.nn.binarizer import PITBinarizer
    K = p['K']
    for mk, pname in ((lambda: PITFeaturesMasker(min(K, 4)), 'alpha'), (lambda: PITTimestepMasker(K), 'beta'), (lambda: PITDilationMasker(K), 'gamma')):
        masker = mk()
        shape = tuple(getattr(masker, pname).shape)

        def fn(ex):
            with SymMode():
                a = SymTensor.fresh('m', shape)
                d = SymTensor.fresh('d', shape)
                for v in d.elems():
                    ex.assume(v >= 0)
                outs = []
                for val in (a, -a, a.abs(), a.abs() + d):
                    with swapped_params([(masker, pname, val)]):
                        th = masker.theta
                        outs.append((list(st.to_arr(th).reshape(-1)), list(st.to_arr(PITBinarizer.apply(th, 0.5)).reshape(-1))))
            return a, d, outs
        ex = Explorer(timeout_ms=Q)
        for pc, (a, d, outs) in ex.explore(fn):
            (t0, b0), (t1, b1), (t2, b2), (t3, b3) = outs
            sym = z3.Or([st.lift(st.e_ne(u, v), 'b') for u, v in zip(t0, t1)] + [z3.BoolVal(False)])
            r, m = ex.must(sym)
            res.oblige(r == 'unsat')
            if r == 'sat':
                res.violations.append({'key': f'masker|{type(masker).__name__}|symmetry', 'what': f'{type(masker).__name__}(K={K}).theta differs between m and -m'})
            mono = z3.Or([st.lift(st.e_lt(v, u), 'b') for u, v in zip(b2, b3)] + [z3.BoolVal(selftest)])
            r, m = ex.must(mono)
            res.oblige(r == 'unsat')
            if r == 'sat':
                res.violations.append({'key': f'masker|{type(masker).__name__}|bit_monotone' + ('|selftest' if selftest else ''), 'what': f'{type(masker).__name__}(K={K}): a binarised mask bit drops when magnitudes grow'})
        res.absorb(ex)
    res.sample({'maskers': f'K={K}: theta symmetric in the sign, binarised bits monotone in |m|'})


# ---------------------------------------------------------------------------------------------------------------------
def _run_sn(res, p, selftest):
    from plinio.cost import params, ops
    spec, wseed = p['spec'], p.get('wseed', 0)
    sn, model, shape = snlib.make_sn(spec, wseed, cost={'params': params, 'ops': ops}, full_cost=True)
    sn.train_net_and_nas()

    def fn(ex):
        pairs, sy = snlib.fresh_alphas(sn, ex, distinct=True)
        wsy = {}
        for n, m in sn.seed.named_modules():
            if isinstance(m, (nn.Conv2d, nn.Linear)):
                w = SymTensor.fresh('W_' + n.replace('.', '_'), tuple(m.weight.shape))
                pairs.append((m, 'weight', w))
                wsy[n] = w
        with SymMode(), swapped_params(pairs):
            for s in list(sy.values()) + list(wsy.values()):
                s.requires_grad_(True)
            out = {}
            try:
                for _, c_ in snlib.combiners(sn):
                    c_.sample_alpha()
                for metric in ('params', 'ops'):
                    ng = len(ex.guards)
                    c = sn.get_cost(metric)
                    gs = torch.autograd.grad(c, list(sy.values()) + list(wsy.values()), allow_unused=True, retain_graph=True)
                    out[metric] = (st.scalar_of(c), gs[:len(sy)], gs[len(sy):], list(ex.guards[ng:]))
            finally:
                for _, c_ in snlib.combiners(sn):
                    c_.theta_alpha = torch.ones(c_.n_branches) / c_.n_branches
        return sy, wsy, out
    ex = Explorer(timeout_ms=Q)
    for pc, (sy, wsy, out) in ex.explore(fn):
        for metric, (c, ga, gw, guards) in out.items():
            vs = _vars_of(c) if st.is_sym(c) else set()
            leak = sorted(v for v in vs if v.startswith('W_'))
            res.oblige(not leak)
            if leak:
                res.violations.append({'key': f'SuperNet|{metric}|depends_on_weights', 'what': f'cost mentions {leak[:3]}'})
            res.oblige(all(g is not None for g in ga))
            if any(g is None for g in ga):
                res.violations.append({'key': f'SuperNet|{metric}|grad_none', 'what': 'a combiner alpha receives no gradient from the cost'})
            res.oblige(all(g is None for g in gw))
            if any(g is not None for g in gw):
                res.violations.append({'key': f'SuperNet|{metric}|weight_gradient', 'what': 'weights receive a gradient from the cost'})
            for g in guards:
                r, _ = ex.must(g)
                res.oblige(r == 'unsat')
                if r == 'sat':
                    res.violations.append({'key': f'SuperNet|{metric}|nonfinite', 'what': 'division by zero reachable'})
            r, _ = ex.must(st.e_lt(c, 0))
            res.oblige(r == 'unsat')
            if r == 'sat':
                res.violations.append({'key': f'SuperNet|{metric}|negative', 'what': 'negative cost'})
        res.sample({'SuperNet': snlib.prog_id(spec), 'cost': {k: str(v[0])[:160] for k, v in out.items()}})
    if selftest:
        res.violations.append({'key': 'selftest', 'what': 'n/a'})
    res.absorb(ex)


class _MNet(nn.Module):
    def __init__(self):
        super().__init__()
        self.c0 = nn.Conv2d(1, 2, 3, padding=1)
        self.fc = nn.Linear(2 * 2 * 2, 2)

    def forward(self, x):
        return self.fc(torch.relu(self.c0(x)).flatten(1))


def _mk_mps(cost_name, ch0):
    import importlib
    from plinio.methods import MPS
    from plinio.methods.mps import get_default_qinfo, MPSType
    from plinio.methods.mps.nn.qtz import MPSBaseQtz
    cost = getattr(importlib.import_module('plinio.cost.' + cost_name), cost_name)
    torch.manual_seed(0)
    a_prec = (8,) if cost_name == 'ne16_latency' else (4, 8)
    if ch0:
        m = MPS(_MNet(), input_shape=(1, 2, 2), qinfo=get_default_qinfo((0, 2, 8), (8,)), w_search_type=MPSType.PER_CHANNEL, cost=cost, hard_softmax=True)
    else:
        m = MPS(_MNet(), input_shape=(1, 2, 2), qinfo=get_default_qinfo((2, 8), a_prec), w_search_type=MPSType.PER_LAYER, cost=cost)
    m.train_net_and_nas()
    qs = [(n, q) for n, q in m.named_modules() if isinstance(q, MPSBaseQtz) and 'alpha' in q._parameters and q.alpha.numel() > 1 and (not ch0 or 'c0.w_mps_quantizer' in n)]
    seen = set()
    qs = [(n, q) for n, q in qs if not (id(q) in seen or seen.add(id(q)))]
    return m, qs


def _run_mps(res, p, selftest):
    import importlib
    from plinio.methods import MPS
    from plinio.methods.mps import get_default_qinfo, MPSType
    from plinio.methods.mps.nn.qtz import MPSBaseQtz
    cost = getattr(importlib.import_module('plinio.cost.' + p['cost']), p['cost'])
    torch.manual_seed(0)
    ch0 = bool(p.get('channel0'))
    m, qs = _mk_mps(p['cost'], ch0)

    def fn(ex):
        pairs, sy = [], {}
        for n, q in qs:
            a = SymTensor.fresh(n.replace('.', '_'), tuple(q.alpha.shape))
            for v in a.elems():
                ex.assume(v >= -4, v <= 4)
            if ch0:
                A_ = st.to_arr(a).reshape(a.shape[0], -1)
                for c_ in range(A_.shape[1]):
                    for i_ in range(A_.shape[0]):
                        for j_ in range(i_ + 1, A_.shape[0]):
                            ex.assume(z3.Or(A_[i_, c_] - A_[j_, c_] >= Fraction(1, 20), A_[j_, c_] - A_[i_, c_] >= Fraction(1, 20)))
            pairs.append((q, 'alpha', a))
            sy[n] = a
        with SymMode(), swapped_params(pairs):
            saved = [(q, q.theta_alpha) for _, q in qs]
            try:
                for s in sy.values():
                    s.requires_grad_(True)
                for _, q in qs:
                    q.sample_alpha()
                ng = len(ex.guards)
                c = m.get_cost()
                gs = torch.autograd.grad(c, list(sy.values()), allow_unused=True)
                wg = torch.autograd.grad(m.get_cost(), [w for w in m.net_parameters() if w.requires_grad], allow_unused=True)
                guards = list(ex.guards[ng:])
            finally:
                for q, th in saved:
                    q.theta_alpha = th
        return sy, st.scalar_of(c), gs, wg, guards
    ex = Explorer(timeout_ms=Q)
    for pc, (sy, c, gs, wg, guards) in ex.explore(fn):
        wq = [n for n in sy if 'w_mps_quantizer' in n]
        for n, g in zip(sy, gs):
            if n in wq:
                res.oblige(g is not None)
                if g is None:
                    res.violations.append({'key': f'MPS|{p["cost"]}|grad_none', 'what': f'weight-precision coefficients {n} receive no gradient'})
        res.oblige(all(g is None for g in wg))
        if any(g is not None for g in wg):
            res.violations.append({'key': f'MPS|{p["cost"]}|weight_gradient', 'what': 'network weights receive a gradient from the cost'})
        for g in guards:
            r, _ = ex.must(g)
            res.oblige(r == 'unsat')
            if r == 'sat':
                if ch0:
                    r_, mm_ = ex.must(g)
                    alphas_ = {n: [st.model_value(mm_, v) for v in a.elems()] for n, a in sy.items()}
                    _viol(res, {'what_kind': 'mps_channel0', 'cost': p['cost'], 'alphas': alphas_, 'observable': 'nonfinite', 'key': f'MPS|{p["cost"]}|nonfinite|per_channel+0bit'},
                          f'MPS per-channel 0-bit, hard sampling: the {p["cost"]} cost or its gradient is not finite at coefficients {jsonable(alphas_)}', selftest)
                else:
                    res.violations.append({'key': f'MPS|{p["cost"]}|nonfinite', 'what': f'division by zero reachable in the cost: {str(g)[:300]}'})
        r, _ = ex.must(st.e_lt(c, 0))
        res.oblige(r == 'unsat')
        if r == 'sat':
            res.violations.append({'key': f'MPS|{p["cost"]}|negative', 'what': 'negative cost'})
        # gradient w.r.t. the weight-precision coefficients is not identically zero (bits scale the metric)
        for n, g in zip(sy, gs):
            if n in wq and g is not None and p['cost'] in ('params_bit', 'ops_bit', 'mpic_latency'):
                allz = z3.And([st.lift(st.e_eq(e, 0), 'b') for e in st.to_arr(g).reshape(-1)])
                r, _ = ex.must(allz)
                # some coefficient values do give a zero gradient (e.g. a saturated choice would, in float); in reals softmax is never saturated
                res.oblige(r == 'unsat')
                if r == 'sat' and False:
                    pass
        res.sample({'MPS': p['cost'], 'cost_term': str(c)[:200]})
    if selftest:
        res.violations.append({'key': 'selftest', 'what': 'n/a'})
    res.absorb(ex)


def _odimo_concrete():
    from plinio.methods.odimo_mps import ODiMO_MPS
    from plinio.methods.odimo_mps.odimo_mps import get_default_qinfo
    import math
    torch.manual_seed(0)
    try:
        m = ODiMO_MPS(_MNet(), input_shape=(1, 2, 2), qinfo=get_default_qinfo((2, 8), (8,)))
        m.train_net_and_nas()
        m(torch.rand(1, 1, 2, 2))
        c = m.cost
        gs = torch.autograd.grad(c, list(m.nas_parameters()), allow_unused=True)
    except Exception as e:
        return False, f'{type(e).__name__}: {e}'[:300]
    fin = math.isfinite(float(c)) and float(c) >= 0 and all(g is None or bool(torch.isfinite(g).all()) for g in gs)
    some = any(g is not None and bool((g != 0).any()) for g in gs)
    return fin and some, f'cost={float(c)} finite gradients={fin} some non-zero={some}'


def _run_odimo(res, p, selftest):
    """ODiMO_MPS with its default DIANA latency and parallel-accelerator reduction can be evaluated (concrete observation) and its
    symbolic cost is finite / non-negative with finite gradients for every coefficient value"""
    ok, msg = _odimo_concrete()
    if selftest:
        ok = False
    res.oblige(ok)
    res.sample({'ODiMO_MPS defaults': msg})
    if not ok:
        rec = {'what_kind': 'odimo', 'observable': 'evaluate', 'key': 'ODiMO_MPS|defaults|cannot_evaluate' + ('|selftest' if selftest else ''), 'what': f'ODiMO_MPS default cost cannot be evaluated: {msg}'}
        if selftest:
            res.violations.append(rec)
        else:
            okr, m2 = replay(rec)
            if okr:
                res.violations.append(rec)
            else:
                res.errors.append('odimo replay mismatch ' + m2)
        res.paths += 1
        return
    from plinio.methods.odimo_mps import ODiMO_MPS
    from plinio.methods.odimo_mps.odimo_mps import get_default_qinfo
    from plinio.methods.mps.nn.qtz import MPSBaseQtz
    torch.manual_seed(0)
    m = ODiMO_MPS(_MNet(), input_shape=(1, 2, 2), qinfo=get_default_qinfo((2, 8), (8,)))
    m.train_net_and_nas()
    seen = set()
    qs = [(n, q) for n, q in m.named_modules() if isinstance(q, MPSBaseQtz) and 'alpha' in q._parameters and q.alpha.numel() > 1 and not (id(q) in seen or seen.add(id(q)))]

    def fn(ex):
        pairs, sy = [], {}
        for n, q in qs:
            a = SymTensor.fresh(n.replace('.', '_'), tuple(q.alpha.shape))
            for v in a.elems():
                ex.assume(v >= -4, v <= 4)
            pairs.append((q, 'alpha', a))
            sy[n] = a
        with SymMode(), swapped_params(pairs):
            saved = [(q, q.theta_alpha) for _, q in qs]
            try:
                for _, q in qs:
                    q.sample_alpha()
                ng = len(ex.guards)
                c = m.get_cost()
                guards = list(ex.guards[ng:])
            finally:
                for q, th in saved:
                    q.theta_alpha = th
        return sy, st.scalar_of(c), guards
    ex = Explorer(timeout_ms=Q)
    for pc, (sy, c, guards) in ex.explore(fn):
        for g in guards:
            r, _ = ex.check(g)
            if r == 'unknown':
                res.inconclusive.append('odimo finiteness: unknown')
                continue
            res.oblige(r == 'unsat')
            if r == 'sat':
                res.violations.append({'key': 'ODiMO_MPS|nonfinite', 'what': 'division by zero reachable in the ODiMO cost'})
        r, _ = ex.check(st.e_lt(c, 0))
        if r == 'unknown':
            res.inconclusive.append('odimo non-negativity: unknown')
        else:
            res.oblige(r == 'unsat')
            if r == 'sat':
                res.violations.append({'key': 'ODiMO_MPS|negative', 'what': 'negative ODiMO cost'})
    res.absorb(ex)
