"""C02 - MPS export is bit-identical to the eval-mode mixed-precision model.

Selection coefficients alpha are z3 reals (arg-max margin >= 0.05), the network input is a tensor of z3 reals.  The real
eval-mode MPS forward (weighted sum of quantised copies collapsing to the arg-max quantiser), export() and the exported
fake-quantised network run on them; the engine forks on every arg-max (one path per precision assignment).  Per path:
  - the two output terms are compared SYNTACTICALLY first (identical DAG = identical sequence of float operations); if they
    differ the solver must prove  exists x . y_mps(x) != y_exported(x)  unsat;
  - every exported layer carries the in/out/weight bit-widths summary() reports, and a layer's input bit-width is the output
    bit-width selected for the tensor it consumes.
Constants (scales, quantised weights, folded BatchNorm) are computed by real float32 torch (concrete-first rule).
"""
import copy
import time
from fractions import Fraction

import numpy as np
import torch
import torch.nn as nn
import z3

import symtorch as st
from symtorch import Explorer, SymMode, SymTensor, swapped_params
from vlib import mpslib
from vlib.harness import InstanceResult, jsonable

PROPERTY = 'C02'
TECHNIQUE = 'symbolic execution of the real eval-mode MPS forward, export and exported network on z3-real coefficients and inputs; per precision assignment: syntactic identity of the output terms, else an unsat equivalence query; exported precisions vs summary'
FUNCTIONS_ENCODED = ['MPSPerLayerQtz.forward/sample_alpha_sm', 'STEArgmax', 'MPSConv2d/MPSConv1d/MPSLinear/MPSIdentity/MPSAdd.forward/export/selected_*', 'QuantConv2d/QuantLinear/QuantIdentity/QuantAdd forward',
                     'PACTActSTE.forward', '_min_max_quantize', 'QuantizerBias.forward', 'mps/graph.py convert(export), register_in_mps_quantizers, build_shared_mps_qtz_map (natively)', 'MPS.summary/export']
BOUNDS = {'quick': 'MD (plain, +dw, +BN), MA (residual add), ML, M1D; per-layer search w=(2,8) a=(4,8); 3x3 / 2x2 images, 2 channels; temperature 1; Gumbel flag on/off (irrelevant in eval); M1A (1D residual, two Conv1d with bias sharing one weight quantizer); ML / MA with the coefficients written through .data / in place into a model that was already evaluated',
          'thorough': 'precision tuples (2,4,8), (8,2), (4,); MD with pooling / 3 channels / two linear layers; temperatures {0.05, 1, 20}'}
OUTSIDE = ['per-channel weight search (not claimed by the statement)', 'CUDA', 'float32 round-off inside one quantiser call on symbolic activations (exact reals there; both sides run the same quantiser objects)']
ASSUMPTIONS = ['arg-max margin >= 0.05', 'inputs within [0, 8] (the input quantiser clips anyway)', 'dyadic weights / BatchNorm statistics']
INSTANCE_TIMEOUT_S = {'quick': 1500, 'thorough': 3600}
Q = 60000


def instances(tier, seed):
    progs = [{'fam': 'MD'}, {'fam': 'MD', 'dw': True}, {'fam': 'MD', 'bn': True}, {'fam': 'MA'}, {'fam': 'ML', 'bn': False}, {'fam': 'ML', 'bn': True}, {'fam': 'M1D'}, {'fam': 'M1A'},
             # a convolution that pads with a non-default padding mode (the exported layer must pad the same way)
             {'fam': 'MD', 'HW': 2, 'pad_mode': 'replicate'}, {'fam': 'MD', 'HW': 2, 'pad_mode': 'circular'}]
    out = []
    for s in progs:
        sp = dict(s, wtype='layer', w=[2, 8], a=[4, 8])
        out.append({'id': mpslib.prog_id(sp), 'spec': sp, 'wseed': seed})
    out.append({'id': mpslib.prog_id(dict(progs[0], w=[2, 8], a=[4, 8])) + ':gumbel', 'spec': dict(progs[0], wtype='layer', w=[2, 8], a=[4, 8], mps={'gumbel_softmax': True}), 'wseed': seed})
    # clipping thresholds moved away from their initial values, as after training
    sp = dict(progs[0], wtype='layer', w=[2, 8], a=[4, 8], clip=True)
    out.append({'id': mpslib.prog_id(sp), 'spec': sp, 'wseed': seed})
    # the coefficients are written into a model that has already been evaluated (through .data / in place under no_grad)
    for s_ in ({'fam': 'ML', 'bn': False}, {'fam': 'MA'}):
        for hist in ('data', 'nograd'):
            sp = dict(s_, wtype='layer', w=[2, 8], a=[4, 8])
            out.append({'id': mpslib.prog_id(sp) + f':after_eval+{hist}', 'spec': sp, 'wseed': seed, 'hist': hist})
    if tier == 'thorough':
        for s in ({'fam': 'MA', 'clip': True}, {'fam': 'ML', 'bn': True, 'clip': True}):
            sp = dict(s, wtype='layer', w=[2, 8], a=[4, 8])
            out.append({'id': mpslib.prog_id(sp), 'spec': sp, 'wseed': seed})
        for s in ({'fam': 'MD', 'pool': 'max', 'HW': 5}, {'fam': 'MD', 'C': 3}, {'fam': 'MD', 'two_fc': True}, {'fam': 'MD', 'pool': 'avg', 'HW': 5, 'bn': True}):
            sp = dict(s, wtype='layer', w=[2, 8], a=[4, 8])
            out.append({'id': mpslib.prog_id(sp), 'spec': sp, 'wseed': seed})
        for w, a in (([2, 4, 8], [8]), ([8, 2], [8, 4]), ([4], [4, 8]), ([2, 4, 8], [2, 4, 8])):
            sp = {'fam': 'MD', 'wtype': 'layer', 'w': w, 'a': a}
            out.append({'id': mpslib.prog_id(sp), 'spec': sp, 'wseed': seed})
        for T in (0.05, 20.0):
            sp = {'fam': 'ML', 'bn': False, 'wtype': 'layer', 'w': [2, 8], 'a': [4, 8], 'mps': {'temperature': T}}
            out.append({'id': mpslib.prog_id(sp), 'spec': sp, 'wseed': seed})
    return out


def exported_precisions(e):
    out = {}
    for name, mod in e.named_modules():
        d = {}
        for attr, key in (('in_quantizer', 'in_precision'), ('out_quantizer', 'out_precision'), ('w_quantizer', 'w_precision')):
            q = getattr(mod, attr, None)
            if q is not None and hasattr(q, 'precision'):
                d[key] = int(q.precision)
        if d:
            out[name] = d
    return out


def precision_problem(summ, exp):
    for lname, s in summ.items():
        e = exp.get(lname)
        if e is None:
            continue
        for k in ('in_precision', 'out_precision', 'w_precision'):
            if k in s and k in e and isinstance(s[k], int) and s[k] != e[k] and s[k] != -1:
                return f'exported {lname}.{k} = {e[k]} but summary() reports {s[k]}'
    return None


def chain_problem(spec, summ):
    """input bit-width of a layer == output bit-width selected for the tensor it consumes (topology of the program)"""
    fam = spec['fam']
    chains = {'MD': [('x_input_quantizer', 'c0')] + ([('c0', 'dw'), ('dw', 'fc')] if spec.get('dw') else [('c0', 'fc')]) + ([('fc', 'fc2')] if spec.get('two_fc') else []),
              'MA': [('x_input_quantizer', 'c0'), ('x_input_quantizer', 'c1')], 'ML': [('x_input_quantizer', 'fc0'), ('fc0', 'fc1')],
              'M1D': [('x_input_quantizer', 'c0'), ('c0', 'c1'), ('c1', 'fc')], 'M1A': [('x_input_quantizer', 'c0'), ('x_input_quantizer', 'c1'), ('c0', 'fc'), ('c1', 'fc')]}[fam]
    for prod, cons in chains:
        if prod in summ and cons in summ and 'out_precision' in summ[prod] and 'in_precision' in summ[cons]:
            if summ[prod]['out_precision'] != summ[cons]['in_precision']:
                return f'{cons}.in_precision = {summ[cons]["in_precision"]} but {prod}.out_precision = {summ[prod]["out_precision"]}'
    return None


def concrete_case(rec):
    spec = rec['spec']
    m, model, shape = mpslib.make_mps(spec, rec.get('wseed', 0))
    if rec.get('hist'):
        with torch.no_grad():
            m(torch.zeros((1,) + tuple(shape)))          # the model has been evaluated before its coefficients are updated
    mpslib.set_alphas(m, rec['alphas'], rec.get('hist') or 'nograd')
    x = torch.tensor([float(Fraction(v)) for v in rec['x']], dtype=torch.float32).reshape((1,) + tuple(shape))
    with torch.no_grad():
        y0 = m(x)
        summ = m.summary()
        try:
            e = m.export().eval()
            y1 = e(x)
        except Exception as ex_:
            return {'err': f'{type(ex_).__name__}: {ex_}'[:300], 'summary': summ}
    return {'err': None, 'diff': float((y0 - y1).abs().max()) if y0.shape == y1.shape else float('inf'), 'summary': summ, 'exported': exported_precisions(e),
            'y0': y0.reshape(-1).tolist(), 'y1': y1.reshape(-1).tolist()}


def replay(rec):
    o = concrete_case(rec)
    obs = rec['observable']
    if obs == 'export_raised':
        return o['err'] is not None, str(o)[:600]
    if o['err'] is not None:
        return True, str(o)[:600]
    if obs == 'output_differs':
        return o['diff'] != 0.0, str(o)[:700]
    if obs == 'precision':
        return precision_problem(o['summary'], o['exported']) is not None, str(o)[:700]
    if obs == 'chain':
        return chain_problem(rec['spec'], o['summary']) is not None, str(o)[:700]
    return False, 'unknown observable'


def run_instance(p):
    # whole quantised networks create hundreds of floor terms; the pairwise monotonicity lemmas that help the scalar-kernel checks only
    # clutter the branch queries here (the outputs are compared syntactically first)
    st.core.FLOOR_LEMMAS = False
    res = InstanceResult(p['id'])
    spec, wseed, selftest = p['spec'], p.get('wseed', 0), p.get('selftest', False)
    m, model, shape = mpslib.make_mps(spec, wseed)
    hist = p.get('hist')

    def prefix():
        with torch.no_grad():
            m(torch.zeros((1,) + tuple(shape)))

    def fn(ex):
        pairs, sy = mpslib.fresh_alphas(m, ex)
        # hist: the model has a history (an eval-mode forward pass at the previous coefficients) and the symbolic coefficients are WRITTEN
        # into the existing Parameter objects (through .data or in place), instead of being presented as fresh objects
        with SymMode(), mpslib.saved_thetas(m), (st.written_params(pairs, prefix, hist) if hist else swapped_params(pairs)):
            x = SymTensor.fresh('x', (1,) + tuple(shape))
            for v in x.elems():
                ex.assume(v >= 0, v <= 8)
            y0 = m(x)                      # forks on every arg-max
            summ = m.summary()
            err, y1, exp = None, None, None
            try:
                e = m.export().eval()
                y1 = e(x)
                exp = exported_precisions(e)
            except Exception as ex_:
                err = f'{type(ex_).__name__}: {ex_}'[:300]
        return sy, x, y0, y1, summ, exp, err
    ex = Explorer(timeout_ms=Q)
    n = identical = 0
    for pc, (sy, x, y0, y1, summ, exp, err) in ex.explore(fn):
        n += 1
        if len(res.violations) >= 3:
            res.notes.append('exploration of this program stopped after 3 replayed violations')
            break
        problems = []
        cex_model = None
        if err is not None:
            problems.append(('export_raised', err, None))
        else:
            pp = precision_problem(summ, exp)
            if selftest and n == 1:
                pp = 'seeded'
            if pp:
                problems.append(('precision', pp, None))
            cp = chain_problem(spec, summ)
            if cp:
                problems.append(('chain', cp, None))
            if tuple(y0.shape) != tuple(y1.shape):
                problems.append(('output_differs', 'shapes differ', None))
            else:
                bad = st.any_differs(y0, y1)
                if bad is False:
                    identical += 1
                else:
                    # cheap search first: evaluate the difference on a few models of the path; the solver is only asked to PROVE equivalence
                    # (or to find a subtle counterexample) when none of them distinguishes the two networks
                    r = None
                    for k_ in range(3):
                        rk, mk = ex.check(*[v >= Fraction(k_, 2) + Fraction(1, 8) for v in x.elems()[:k_ + 1]])
                        if rk == 'sat' and z3.is_true(mk.eval(bad, model_completion=True)):
                            r, mm = 'sat', mk
                            cex_model = mk
                            break
                    if r is None:
                        r, mm = ex.check(bad, timeout_ms=30000)
                    if r == 'unknown':
                        res.inconclusive.append(f'path {n}: output terms differ syntactically and the equivalence query is unknown')
                    elif r == 'sat':
                        problems.append(('output_differs', 'outputs differ for some input', bad))
                        cex_model = cex_model or mm
        res.oblige(not problems, 3)
        extra = [pb[2] for pb in problems if pb[2] is not None]
        cexm = cex_model
        if problems and cexm is not None and any(pb[0] == 'output_differs' for pb in problems):
            mm = cexm
            alphas, xv = mpslib.values_of(mm, sy), [st.model_value(mm, v) for v in x.elems()]
            cex_model = None
        elif problems or n <= 3 or n % 8 == 0:
            # a model of the path: dyadic coefficients; inputs on a coarse grid first, any model otherwise
            mm = mpslib.grid_model(ex, sy, extra + [v * 2 == z3.ToReal(z3.Int(f'gx!{i}')) for i, v in enumerate(x.elems())], den=8, bound=2)
            if mm is None:
                res.inconclusive.append(f'path {n}: no model of the path condition within the time limit')
                continue
            alphas, xv = mpslib.values_of(mm, sy), [st.model_value(mm, v) for v in x.elems()]
        if not problems:
            if n <= 3 or n % 8 == 0:
                o = concrete_case({'spec': spec, 'wseed': wseed, 'alphas': jsonable(alphas), 'x': jsonable(xv), 'hist': hist})
                if n <= 2:
                    res.sample({'program': mpslib.prog_id(spec), 'alphas': alphas, 'x': xv, 'summary': summ, 'bit_identical_in_torch': o.get('diff') == 0.0})
                if o['err'] is None and o['diff'] == 0.0 and o['summary'] == summ:
                    res.validated += 1
                else:
                    res.errors.append(f'engine says identical but plain torch: {str(o)[:400]}')
            continue
        obs, text, _ = problems[0]
        rec = {'spec': spec, 'wseed': wseed, 'alphas': alphas, 'x': xv, 'observable': obs, 'summary': summ, 'hist': hist,
               'key': f'{mpslib.prog_id(spec)}' + (f':after_eval+{hist}' if hist else '') + f'|{obs}|{"".join(str(v.get("w_precision", "")) for v in summ.values())}' + ('|selftest' if selftest else ''),
               'what': f'{mpslib.prog_id(spec)}: {obs}: {text} at summary {summ}'[:500]}
        if selftest:
            res.violations.append(jsonable(rec))
            continue
        if any(v['key'] == rec['key'] for v in res.violations):
            continue
        okr, msg = replay(jsonable(rec))
        if okr:
            rec['replay_msg'] = msg
            res.violations.append(jsonable(rec))
        else:
            res.errors.append(f'counterexample did not reproduce: {rec["key"]}: {msg[:500]}')
    res.extra['paths_with_syntactically_identical_outputs'] = identical
    res.notes.append(f'{identical}/{n} precision assignments: output terms of MPS and exported model syntactically identical')
    res.witnesses += 1
    res.witnesses_ok += 1 if ex.n_paths >= 2 else 0
    res.absorb(ex)
    return res
