"""C03 - SuperNet export keeps exactly the arg-max branch of every choice block.

The selection coefficients alpha of every combiner and the network input are z3 reals (pairwise distinct = no ties).
The real hard-selection forward, export() (graph surgery of supernet/graph.py) and the exported network run on them; the
engine forks on every arg-max, so each feasible tuple of winners is one path, on which
  - the exported module tree contains no combiner and no sn_branches other than the winners (winner = arg-max decided by z3),
  - exists x . SuperNet(hard).eval()(x) != export().eval()(x)  is unsat,
  - parameters of layers outside choice blocks are unchanged.
"""
import copy
import re
import time
from fractions import Fraction

import numpy as np
import torch
import torch.nn as nn
import z3

import symtorch as st
from symtorch import Explorer, SymMode, SymTensor, swapped_params
from vlib import snlib
from vlib.harness import InstanceResult, jsonable

PROPERTY = 'C03'
TECHNIQUE = 'symbolic execution of the real SuperNet hard forward + export on z3-real selection coefficients and inputs; one path per winner tuple; equivalence and module-tree obligations per path'
FUNCTIONS_ENCODED = ['SuperNetCombiner.forward/sample_alpha_sm/best_layer_index', 'supernet/graph.py convert(export)/export_graph', 'SuperNet.export/update_softmax_options',
                     'link_combiners_to_branches (natively at construction)']
BOUNDS = {'quick': 'S(n, kind): n in {2,3,4} x kinds {conv, seq, user, userfn, identity}, n=11 and n=12 (conv), 2 blocks, block used twice; all winner tuples by forking; a choice block nested in a branch of another block (inner block as the last / inner element of an nn.Sequential), n in {2,3}',
          'thorough': 'n = 2..12 for every kind incl. useradd and mix, 1..3 blocks, block used twice'}
OUTSIDE = ['choice blocks nested more than one level deep', 'float32 round-off (exact arithmetic)', 'ties are covered by the `ties` programs only (n <= 4 quick, <= 5 thorough); the other programs assume pairwise distinct coefficients']
ASSUMPTIONS = ['coefficients pairwise distinct except in the `ties` programs, where the maximum of at least one block is attained twice; torch.argmax returns the first maximal index (CPU behaviour)', 'weights: generic dyadic values (selection does not depend on them)']
INSTANCE_TIMEOUT_S = {'quick': 1500, 'thorough': 3600}
Q = 60000


def instances(tier, seed):
    specs = []
    if tier == 'quick':
        for n in (2, 3, 4):
            for kind in ('conv', 'seq', 'user', 'userfn', 'identity'):
                if n == 4 and kind in ('user', 'identity'):
                    continue
                specs.append({'n': n, 'kind': kind})
        specs += [{'n': 11, 'kind': 'conv'}, {'n': 12, 'kind': 'conv'}, {'n': 2, 'kind': 'conv', 'blocks': 2}, {'n': 3, 'kind': 'seq', 'twice': True},
                  {'n': 2, 'kind': 'mix', 'blocks': 2, 'twice': True}, {'n': 2, 'kind': 'dw'}, {'n': 2, 'kind': 'conv', 'stem2': True},
                  # a choice block inside a branch of another choice block
                  {'n': 2, 'kind': 'nested'}, {'n': 2, 'kind': 'nested_last'}, {'n': 3, 'kind': 'nested_last'},
                  # the selection is frozen (fine-tuning phase) before the export: the winner is still the arg-max of the coefficients
                  {'n': 3, 'kind': 'conv', 'after': ['train_net_only']}, {'n': 2, 'kind': 'mix', 'blocks': 2, 'after': ['train_net_only']},
                  # blocks declared with Gumbel sampling: in eval mode hard selection must still be a plain one-hot
                  {'n': 2, 'kind': 'conv', 'gumbel': True}, {'n': 3, 'kind': 'seq', 'gumbel': True},
                  # coefficients with a tie for the maximum (e.g. the uniform initialisation): the first maximal branch is the winner
                  {'n': 2, 'kind': 'conv', 'ties': True}, {'n': 3, 'kind': 'seq', 'ties': True}, {'n': 4, 'kind': 'conv', 'ties': True}]
    else:
        for n in range(2, 13):
            for kind in ('conv', 'seq', 'user', 'userfn', 'useradd', 'identity', 'mix'):
                specs.append({'n': n, 'kind': kind})
        for n in (2, 3):
            for blocks in (2, 3):
                for twice in (False, True):
                    specs.append({'n': n, 'kind': 'mix', 'blocks': blocks, 'twice': twice})
        specs += [{'n': 11, 'kind': 'conv', 'twice': True}, {'n': 4, 'kind': 'seq', 'twice': True}]
        specs += [{'n': n, 'kind': k, 'blocks': b} for n in (2, 3, 4) for k in ('nested', 'nested_last') for b in (1, 2)]
        specs += [{'n': n, 'kind': k, 'ties': True} for n in (2, 3, 4, 5) for k in ('conv', 'seq', 'mix')] + [{'n': 2, 'kind': 'conv', 'blocks': 2, 'ties': True}]
        specs += [{'n': n, 'kind': k, 'gumbel': True} for n in (2, 3, 4) for k in ('conv', 'seq', 'mix')] + [{'n': 2, 'kind': 'mix', 'blocks': 2, 'gumbel': True}]
    return [{'id': snlib.prog_id(s), 'spec': s, 'wseed': seed} for s in specs]


def tree_check(sn, exported, winners):
    """-> None or a description of what is wrong in the exported module tree. winners: {combiner name: index}"""
    from plinio.methods.supernet.nn.combiner import SuperNetCombiner
    names = [n for n, _ in exported.named_modules()]
    for n, m in exported.named_modules():
        if isinstance(m, SuperNetCombiner):
            return f'combiner {n} survives in the exported network'
    blocks = {c: c.replace('seed.', '').rsplit('.sn_combiner', 1)[0] for c in winners}
    for cname, win in winners.items():
        block = blocks[cname]
        pat = re.compile(re.escape(block) + r'\.sn_branches\.(\d+)(\.|$)')
        kept = set()
        for n in names:
            mm = pat.match(n)
            if mm:
                kept.add(int(mm.group(1)))
        # a block nested in a branch of another block exists in the exported network only if every enclosing block selected that branch
        live = True
        for c2, b2 in blocks.items():
            if c2 != cname and block.startswith(b2 + '.sn_branches.'):
                idx = int(block[len(b2 + '.sn_branches.'):].split('.')[0])
                live = live and idx == winners[c2]
        if not live:
            if kept:
                return f'block {block} (inside a discarded branch): branches {sorted(kept)} left in the exported network'
            continue
        branch = sn.get_submodule(cname.rsplit('.sn_combiner', 1)[0] + f'.sn_branches.{win}')
        has_params = any(True for _ in branch.parameters())
        if kept - {win}:
            return f'block {block}: branches {sorted(kept - {win})} left in the exported network (winner {win})'
        if has_params and win not in kept:
            return f'block {block}: winning branch {win} is missing from the exported network'
    return None


def fixed_params_check(sn, exported):
    a = {n: p for n, p in sn.seed.named_parameters() if 'sn_branches' not in n and 'sn_combiner' not in n}
    b = dict(exported.named_parameters())
    for n, p in a.items():
        if n not in b:
            return f'fixed layer parameter {n} missing after export'
        if not torch.equal(p.detach(), b[n].detach() if not isinstance(b[n], SymTensor) else st.core.demote(b[n])):
            return f'fixed layer parameter {n} changed by export'
    return None


def concrete_case(spec, wseed, alphas, xvals):
    sn, model, shape = snlib.make_sn(spec, wseed)
    snlib.set_alphas(sn, alphas)
    sn.update_softmax_options(hard=True)
    x = torch.tensor([float(Fraction(v)) for v in xvals], dtype=torch.float32).reshape((1,) + tuple(shape))
    winners = {n: int(torch.argmax(c.alpha)) for n, c in snlib.combiners(sn)}
    with torch.no_grad():
        y0 = sn(x)
        try:
            e = sn.export().eval()
            y1 = e(x)
        except Exception as ex_:
            return {'err': f'{type(ex_).__name__}: {ex_}'[:300], 'winners': winners}
    return {'err': None, 'winners': winners, 'diff': float((y0 - y1).abs().max()) if y0.shape == y1.shape else float('inf'), 'tree': tree_check(sn, e, winners),
            'fixed': fixed_params_check(sn, e), 'y0': y0.reshape(-1).tolist(), 'y1': y1.reshape(-1).tolist()}


def replay(rec):
    o = concrete_case(rec['spec'], rec.get('wseed', 0), rec['alphas'], rec['x'])
    obs = rec['observable']
    if obs == 'export_raised':
        return o['err'] is not None, str(o)
    if o['err'] is not None:
        return True, 'export raised: ' + str(o)
    if obs == 'output_differs':
        return o['diff'] > 1e-4, str(o)[:600]
    if obs == 'tree':
        return o['tree'] is not None, str(o)[:600]
    if obs == 'fixed':
        return o['fixed'] is not None, str(o)[:600]
    return False, 'unknown observable'


def run_instance(p):
    res = InstanceResult(p['id'])
    spec, wseed, selftest = p['spec'], p.get('wseed', 0), p.get('selftest', False)
    sn, model, shape = snlib.make_sn(spec, wseed)
    sn.update_softmax_options(hard=True)
    combs = snlib.combiners(sn)

    def fn(ex):
        pairs, sy = snlib.fresh_alphas(sn, ex, ties=bool(spec.get('ties')))
        with SymMode(), swapped_params(pairs):
            x = SymTensor.fresh('x', (1,) + tuple(shape))
            y0 = sn(x)            # forks on the arg-max inside the hard sampling
            err, e, y1 = None, None, None
            try:
                e = sn.export()
                y1 = e.eval()(x)
            except Exception as ex_:
                err = f'{type(ex_).__name__}: {ex_}'[:300]
            for _, c in combs:
                c.theta_alpha = c.alpha.detach() if not isinstance(c.alpha, SymTensor) else torch.ones(c.n_branches) / c.n_branches
        return sy, x, y0, y1, e, err
    ex = Explorer(timeout_ms=Q)
    n = 0
    for pc, (sy, x, y0, y1, e, err) in ex.explore(fn):
        n += 1
        # the winners of this path, decided by the solver from the raw coefficients
        winners = {}
        for cname, a in sy.items():
            el = a.elems()
            win = None
            for i in range(len(el)):
                # largest coefficient, the first one on ties (torch.argmax)
                r, _ = ex.must(z3.And([el[i] > el[j] for j in range(i)] + [el[i] >= el[j] for j in range(i + 1, len(el))]), want_model=False)
                if r == 'sat':
                    if win is not None:
                        win = 'ambiguous'
                        break
                    win = i
            winners[cname] = win
        problems = []
        if any(w is None or w == 'ambiguous' for w in winners.values()):
            problems.append(('path_does_not_determine_winner', f'winners on this path: {winners}'))
        elif err is not None:
            problems.append(('export_raised', err))
        else:
            t = tree_check(sn, e, winners)
            if selftest and n == 1:
                t = 'seeded'
            if t:
                problems.append(('tree', t))
            f = fixed_params_check(sn, e)
            if f:
                problems.append(('fixed', f))
            if tuple(y0.shape) != tuple(y1.shape):
                problems.append(('output_differs', 'shape'))
            else:
                bad = st.any_differs(y0, y1)
                if bad is not False:
                    r, m = ex.check(bad)
                    if r == 'unknown':
                        res.inconclusive.append(f'path {n}: equivalence unknown')
                    elif r == 'sat':
                        problems.append(('output_differs', bad))
        res.oblige(not problems, 3)
        mm = snlib.grid_model(ex, dict(sy, x=x), [problems[0][1]] if problems and st.is_sym(problems[0][1]) else [])
        alphas, xv = snlib.values_of(mm, sy), [st.model_value(mm, v) for v in x.elems()]
        if not problems:
            if n <= 8 or n % 6 == 0:
                o = concrete_case(spec, wseed, jsonable(alphas), jsonable(xv))
                if n <= 2:
                    res.sample({'program': snlib.prog_id(spec), 'alphas': alphas, 'winners': winners, 'max_abs_diff_torch': o.get('diff')})
                if o['err'] is None and o['diff'] <= 1e-3 and o['tree'] is None and {k: v for k, v in o['winners'].items()} == winners:
                    res.validated += 1
                else:
                    res.errors.append(f'engine says ok but plain torch disagrees: {str(o)[:400]} winners(engine)={winners}')
            continue
        for obs, detail in problems[:1]:
            rec = {'spec': spec, 'wseed': wseed, 'alphas': alphas, 'x': xv, 'observable': obs, 'winners': winners,
                   'key': f'{snlib.prog_id(spec)}|{obs}|winners={list(winners.values())}' + ('|selftest' if selftest else ''),
                   'what': f'{snlib.prog_id(spec)}: {obs}: {detail if not st.is_sym(detail) else "outputs differ"} (winners {winners})'}
            if selftest:
                res.violations.append(jsonable(rec))
                continue
            if obs == 'path_does_not_determine_winner':
                res.errors.append(rec['what'])
                continue
            okr, msg = replay(jsonable(rec))
            if okr:
                rec['replay_msg'] = msg[:500]
                res.violations.append(jsonable(rec))
            else:
                res.errors.append(f'counterexample did not reproduce: {rec["key"]}: {msg[:400]}')
    res.witnesses += 1
    res.witnesses_ok += 1 if ex.n_paths >= (1 if spec.get('ties') and spec.get('n') == 2 and spec.get('blocks', 1) == 1 else 2) else 0
    res.absorb(ex)
    return res
