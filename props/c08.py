"""C08 - no setting of the architectural parameters can search a layer out of existence.

Symbolic: alpha, beta, gamma of every searchable layer are unbounded real variables.  Decided by z3:
  (layer)  for PITConv1d with kernel size K: sum(features_mask) >= 1 and sum(time_mask) >= 1 are valid formulas;
           on every feasible binarised pattern kernel_size_opt >= 1 and dilation_opt >= 1;
  (net)    for whole networks: on every feasible path through summary()/export() (path feasibility decided by the
           solver) export raises nothing, the exported net maps an input of the original shape to an output of the
           original shape, exported layer sizes equal summary(), frozen (input/output-connected) groups keep full width.
"""
import copy
import time
import traceback
from fractions import Fraction

import torch
import torch.nn as nn
import z3

import symtorch as st
from symtorch import SymMode, SymTensor, Explorer, swapped_params
from vlib import pitlib
from vlib.harness import InstanceResult, jsonable

PROPERTY = 'C08'
TECHNIQUE = 'symbolic execution of the real PIT maskers/export on z3-backed tensors (unbounded real mask parameters), z3 validity queries per obligation'
FUNCTIONS_ENCODED = [
    'PITFeaturesMasker.theta', 'PITFrozenFeaturesMasker.theta', 'PITTimestepMasker.theta', 'PITDilationMasker.theta',
    'PITBinarizer.forward', 'PITConv1d._time_mask/_features_mask/kernel_size_opt/dilation_opt/out_features_opt/in_features_opt',
    'PITConv1d.export', 'PITConv2d.export', 'PITLinear.export', 'PIT.summary', 'PIT.export', 'pit/graph.py convert(export)',
    'build_shared_features_map (run natively at construction)']
BOUNDS = {
    'quick': 'layer: K=1..12, C=1..3; nets: T1 K=1..8 d0 in {1,2} C=2, A1, T2, K1(s+s), D2, L1, R2 at smallest sizes; O1 (heads returned as dict / nested tuple / flat tuple), R4; exported output shapes also compared with the user\'s original model',
    'thorough': 'layer: K=1..16, C=1..6; nets: T1 K=1..12 x d0=1..3 x stride 1..2, A1 (+depthwise), T2 fold_bn on/off, K1 all origin pairs, K2, D2 pools, L1, R2',
}
OUTSIDE = ['float32 overflow of mask parameters (|v| > 1e37): reals have no overflow', 'architectures outside the grammar',
           'binarization thresholds other than the default 0.5']
ASSUMPTIONS = ['mask parameters are arbitrary reals (no bound); float32 rounding of theta sums is not modelled',
               'frozen receptive-field / dilation maskers (stride != 1) keep their initial all-ones parameters (not trainable)',
               'weights are concrete generic dyadic values (C08 does not depend on them)']
INSTANCE_TIMEOUT_S = {'quick': 900, 'thorough': 3600}
Q_FP = 120000


def instances(tier, seed):
    out = []
    ks = range(1, 13) if tier == 'quick' else range(1, 17)
    cs = (1, 3) if tier == 'quick' else (1, 2, 3, 6)
    for K in ks:
        out.append({'id': f'layer:K={K}', 'kind': 'layer', 'K': K, 'Cs': list(cs)})
    # bit-precise float32 mask parameters (z3 FloatingPoint): every finite float32 with |v| <= 1e30, incl. the huge ones
    for K in (range(1, 5) if tier == 'quick' else range(1, 7)):
        out.append({'id': f'layer_fp32:K={K}', 'kind': 'fp32', 'K': K, 'Cs': [min(K, 3)]})
    nets = []
    if tier == 'quick':
        for K in range(1, 9):
            nets.append({'fam': 'T1', 'K': K, 'd0': 1, 's': 1, 'C': 2})
        nets += [{'fam': 'T1', 'K': 4, 'd0': 2, 's': 1, 'C': 2}, {'fam': 'T1', 'K': 3, 'd0': 1, 's': 2, 'C': 2},
                 {'fam': 'A1', 'K': 2, 'C': 2}, {'fam': 'T2', 'K0': 3, 'K1': 2}, {'fam': 'K1', 'origins': ['s', 's']},
                 {'fam': 'D2', 'C': 2}, {'fam': 'L1'}, {'fam': 'R2'},
                 {'fam': 'T1', 'K': 2, 'tail': 'relu'}, {'fam': 'T1', 'K': 2, 'tail': 'add'},
                 {'fam': 'O1', 'out': 'dict'}, {'fam': 'O1', 'out': 'nested'}, {'fam': 'O1', 'out': 'tuple'}, {'fam': 'R4'},
                 # masks that are no longer trained (another phase of the search) still decide the exported sizes
                 {'fam': 'T1', 'K': 3, 'd0': 1, 's': 1, 'C': 2, 'after': [['train_rf', False], ['train_dilation', False]]},
                 {'fam': 'T1', 'K': 5, 'd0': 1, 's': 1, 'C': 2, 'after': [['train_net_only', 'call']]}, {'fam': 'D2', 'C': 2, 'after': [['train_features', False]]}]
    else:
        for K in range(1, 13):
            for d0 in (1, 2, 3):
                for s in (1, 2):
                    if K > 9 and (d0 > 1 or s > 1):
                        continue
                    nets.append({'fam': 'T1', 'K': K, 'd0': d0, 's': s, 'C': 2})
        nets += [{'fam': 'T1', 'K': 5, 'd0': 1, 's': 1, 'C': 3, 'bias': False}]
        nets += [{'fam': 'T1', 'K': 3, 'tail': t} for t in ('relu', 'add', 'lsm')]
        nets += [{'fam': 'A1', 'K': 2, 'C': 2}, {'fam': 'A1', 'K': 3, 'C': 3}, {'fam': 'A1', 'K': 2, 'C': 2, 'dw': True}]
        for fold in (False, True):
            nets += [{'fam': 'T2', 'K0': 3, 'K1': 2, 'pit': {'fold_bn': fold}}, {'fam': 'T2', 'K0': 4, 'K1': 3, 'lin_bn': False, 'pit': {'fold_bn': fold}},
                     {'fam': 'D2', 'C': 2, 'pit': {'fold_bn': fold}}, {'fam': 'L1', 'pit': {'fold_bn': fold}}]
        for a in 'sfi':
            for b in 'sfi':
                nets.append({'fam': 'K1', 'origins': [a, b]})
        nets += [{'fam': 'K1', 'origins': ['s', 'f', 's']}, {'fam': 'K2'}, {'fam': 'D2', 'C': 3, 'pool': 'avg'},
                 {'fam': 'D2', 'C': 2, 'pool': 'none', 'bn': False}, {'fam': 'R2'}, {'fam': 'R2', 'K': 3}, {'fam': 'R4'}]
        nets += [{'fam': 'O1', 'out': o, 'C': C} for o in ('dict', 'nested', 'tuple', 'list') for C in (2, 3)]
    for spec in nets:
        out.append({'id': 'net:' + pitlib.prog_id(spec), 'kind': 'net', 'spec': spec})
    return out


# ---------------------------------------------------------------------------------------------------------------------
# concrete oracle (used for replay of counterexamples and for the concolic validation of explored paths)
# ---------------------------------------------------------------------------------------------------------------------
def concrete_layer(K, C, values):
    from plinio.methods.pit.nn import PITConv1d
    from plinio.methods.pit.nn.features_masker import PITFeaturesMasker
    from plinio.methods.pit.nn.timestep_masker import PITTimestepMasker
    from plinio.methods.pit.nn.dilation_masker import PITDilationMasker
    layer = PITConv1d(nn.Conv1d(1, C, K), PITFeaturesMasker(C), PITTimestepMasker(K), PITDilationMasker(K))
    with torch.no_grad():
        for (m, p), key in (((layer.out_features_masker, 'alpha'), 'alpha'), ((layer.timestep_masker, 'beta'), 'beta'),
                            ((layer.dilation_masker, 'gamma'), 'gamma')):
            getattr(m, p).copy_(torch.tensor([float(Fraction(v)) for v in values[key]]))
    fm = [int(v) for v in layer.features_mask.tolist()]
    tm = [int(v) for v in layer.time_mask.tolist()]
    obs = {'features_mask': fm, 'time_mask': tm}
    viol = None
    if sum(fm) < 1:
        viol = 'features_mask_all_zero'
    elif sum(tm) < 1:
        viol = 'time_mask_all_zero'
    else:
        obs['kernel_size_opt'] = layer.kernel_size_opt[0]
        obs['dilation_opt'] = layer.dilation_opt[0]
        if obs['kernel_size_opt'] < 1:
            viol = 'kernel_size_opt<1'
        elif obs['dilation_opt'] < 1:
            viol = 'dilation_opt<1'
    return obs, viol


def net_observe(pit, shape, zeros, orig_shapes=None):
    """the observation the property talks about, on whatever tensor type is active; returns (obs, violation)"""
    from plinio.methods.pit.nn.features_masker import PITFrozenFeaturesMasker
    obs = {}
    try:
        summ = pit.summary()
    except Exception as e:
        return obs, f'summary_raised:{type(e).__name__}'
    obs['summary'] = {k: {a: (list(b) if isinstance(b, tuple) else b) for a, b in v.items()} for k, v in summ.items()}
    summ = {k: v for k, v in summ.items() if 'out_features' in v}
    for lname, v in summ.items():
        if v['out_features'] < 1:
            return obs, f'out_features<1@{lname}'
        if v['in_features'] < 1:
            return obs, f'in_features<1@{lname}'
        if 'kernel_size' in v and isinstance(v['kernel_size'], tuple) and v['type'] == 'PITConv1d':
            if v['kernel_size'][0] < 1:
                return obs, f'kernel_size<1@{lname}'
            if v['dilation'][0] < 1:
                return obs, f'dilation<1@{lname}'
    for lname, layer in pitlib.pit_layers(pit):
        fm = getattr(layer, 'out_features_masker', None)
        if isinstance(fm, PITFrozenFeaturesMasker) and lname in summ:
            if summ[lname]['out_features'] != fm.out_channels:
                return obs, f'frozen_width_changed@{lname}'
    try:
        exported = pit.export()
    except Exception as e:
        obs['export_exc'] = f'{type(e).__name__}: {e}'[:200]
        return obs, f'export_raised:{type(e).__name__}'
    # sizes of exported layers == summary
    for lname, v in summ.items():
        try:
            m = exported.get_submodule(lname)
        except AttributeError:
            return obs, f'exported_layer_missing@{lname}'
        if isinstance(m, (nn.Conv1d, nn.Conv2d)):
            got = (m.in_channels, m.out_channels)
            if isinstance(m, nn.Conv1d):
                if tuple(m.kernel_size) != tuple(v['kernel_size']) or tuple(m.dilation) != tuple(v['dilation']):
                    return obs, f'exported_kernel_or_dilation!=summary@{lname}'
        elif isinstance(m, nn.Linear):
            got = (m.in_features, m.out_features)
        else:
            continue
        if got != (v['in_features'], v['out_features']):
            return obs, f'exported_size!=summary@{lname}'
    try:
        y0 = pit(zeros)
        y1 = exported.eval()(zeros)
    except Exception as e:
        obs['run_exc'] = f'{type(e).__name__}: {e}'[:200]
        return obs, f'exported_run_raised:{type(e).__name__}'
    obs['out_shape'] = [list(t) for t in pitlib.out_shapes(y1)]
    if type(y0) is not type(y1) or pitlib.out_shapes(y0) != pitlib.out_shapes(y1):
        return obs, 'exported_output_shape_differs'
    if orig_shapes is not None and pitlib.out_shapes(y1) != orig_shapes:
        return obs, 'exported_output_shape!=original'
    return obs, None


def concrete_net(spec, values, seed=0):
    pit, model, shape = pitlib.make_pit(spec, seed)
    pitlib.set_masks(pit, values)
    with torch.no_grad():
        orig = pitlib.out_shapes(model(torch.zeros(1, *shape)))
    return net_observe(pit, shape, torch.zeros(1, *shape), orig)


def replay(rec):
    if rec['kind'] in ('layer', 'fp32'):
        obs, viol = concrete_layer(rec['K'], rec['C'], rec['values'])
    else:
        obs, viol = concrete_net(rec['spec'], rec['values'], rec.get('wseed', 0))
    want = rec['observable']
    ok = viol is not None and viol.split('@')[0].split(':')[0] == want.split('@')[0].split(':')[0]
    return ok, f"observed={viol} expected={want} obs={jsonable(obs)}"


# ---------------------------------------------------------------------------------------------------------------------
def run_instance(p):
    res = InstanceResult(p['id'])
    if p['kind'] == 'layer':
        for C in p['Cs']:
            _run_layer(res, p['K'], C, p.get('selftest', False))
    elif p['kind'] == 'fp32':
        for C in p['Cs']:
            _run_layer_fp32(res, p['K'], C, p.get('selftest', False))
    else:
        _run_net(res, p['spec'], p.get('seed', 0), p.get('selftest', False))
    return res


def _violation(res, rec, what):
    ok, msg = replay(jsonable(rec))
    rec = jsonable(rec)
    rec['what'] = what
    rec['replay_msg'] = msg[:500]
    if ok:
        res.violations.append(rec)
    else:
        res.errors.append(f"counterexample did not reproduce on the real code: {what}: {msg[:600]}")


def _run_layer(res, K, C, selftest):
    from plinio.methods.pit.nn import PITConv1d
    from plinio.methods.pit.nn.features_masker import PITFeaturesMasker
    from plinio.methods.pit.nn.timestep_masker import PITTimestepMasker
    from plinio.methods.pit.nn.dilation_masker import PITDilationMasker
    layer = PITConv1d(nn.Conv1d(1, C, K), PITFeaturesMasker(C), PITTimestepMasker(K), PITDilationMasker(K))

    def syms():
        a = SymTensor.fresh('alpha', (C,))
        b = SymTensor.fresh('beta', layer.timestep_masker.beta.shape)
        g = SymTensor.fresh('gamma', layer.dilation_masker.gamma.shape)
        pairs = [(layer.out_features_masker, 'alpha', a), (layer.timestep_masker, 'beta', b), (layer.dilation_masker, 'gamma', g)]
        return pairs, {'alpha': a, 'beta': b, 'gamma': g}

    # --- validity obligations (single path, no forking)
    def fn1(ex):
        pairs, sy = syms()
        with SymMode(), swapped_params(pairs):
            fm = layer._features_mask(True)
            tm = layer._time_mask(True)
        nf = z3.Sum([st.lift(v, 'r') for v in fm.elems()])
        nt = z3.Sum([st.lift(v, 'r') for v in tm.elems()])
        out = []
        lim = 2 if (selftest and K >= 2) else 1
        for name, term in (('features_mask_all_zero', nf), ('time_mask_all_zero', nt)):
            ok, m = ex.valid(term >= (lim if name.startswith('time') else 1))
            out.append((name, ok, None if ok else pitlib.grid_model(ex, sy, [term < (lim if name.startswith('time') else 1)])[0], sy))
        # vacuity witness: the assumptions are satisfiable and a fully open mask is reachable
        r, _ = ex.check(nt >= K)
        out.append(('witness', r == 'sat', None, sy))
        return out
    ex = Explorer(timeout_ms=60000)
    for pc, out in ex.explore(fn1):
        for name, ok, m, sy in out:
            if name == 'witness':
                res.witnesses += 1
                res.witnesses_ok += 1 if ok else 0
                continue
            res.oblige(ok)
            if not ok:
                vals = pitlib.values_of(m, sy)
                rec = {'kind': 'layer', 'K': K, 'C': C, 'values': vals, 'observable': name,
                       'key': f'layer:PITConv1d|K={K}|obs={name}' + ('|selftest' if selftest else '')}
                if selftest:
                    res.violations.append(dict(jsonable(rec), what='seeded oracle'))
                else:
                    _violation(res, rec, f'PITConv1d(K={K},C={C}): {name} for {jsonable(vals)}')
    res.absorb(ex)

    # --- path exploration of the derived integers
    def fn2(ex):
        pairs, sy = syms()
        with SymMode(), swapped_params(pairs):
            try:
                tm = [bool(v) for v in layer.time_mask.bool()]
                ks = layer.kernel_size_opt[0]
                dil = layer.dilation_opt[0]
            except Exception as e:
                return sy, None, f'{type(e).__name__}'
        return sy, (tm, ks, dil), None
    ex = Explorer(timeout_ms=60000)
    for pc, (sy, obs, err) in ex.explore(fn2):
        bad = err or (None if (obs[1] >= 1 and obs[2] >= 1) else ('kernel_size_opt<1' if obs[1] < 1 else 'dilation_opt<1'))
        res.oblige(bad is None)
        m, _ = pitlib.grid_model(ex, sy)
        vals = pitlib.values_of(m, sy)
        cobs, cviol = concrete_layer(K, C, vals)
        res.sample({'K': K, 'C': C, 'time_mask': obs[0] if obs else None, 'kernel_size_opt': obs[1] if obs else None,
                    'dilation_opt': obs[2] if obs else None, 'model': vals})
        if bad is None:
            if cviol is None and cobs['time_mask'] == [int(b) for b in obs[0]] and cobs['kernel_size_opt'] == obs[1] and cobs['dilation_opt'] == obs[2]:
                res.validated += 1
            else:
                res.errors.append(f'concolic mismatch K={K}: engine {obs} real {cobs} {cviol}')
        elif not selftest:
            if sum(cobs['time_mask']) == 0 and any(v.get('observable') == 'time_mask_all_zero' and v.get('K') == K for v in res.violations):
                continue   # same root cause already reported by the validity obligation
            rec = {'kind': 'layer', 'K': K, 'C': C, 'values': vals, 'observable': cviol or bad,
                   'key': f'layer:PITConv1d|K={K}|obs={cviol or bad}'}
            _violation(res, rec, f'PITConv1d(K={K}): {bad}')
    res.absorb(ex)


def _run_layer_fp32(res, K, C, selftest):
    """the same validity obligations as _run_layer, with the mask parameters as bit-precise float32 terms: rounding,
    absorption and cancellation in the keep-alive arithmetic are part of the model (reals cannot see them)"""
    from plinio.methods.pit.nn import PITConv1d
    from plinio.methods.pit.nn.features_masker import PITFeaturesMasker
    from plinio.methods.pit.nn.timestep_masker import PITTimestepMasker
    from plinio.methods.pit.nn.dilation_masker import PITDilationMasker
    layer = PITConv1d(nn.Conv1d(1, C, K), PITFeaturesMasker(C), PITTimestepMasker(K), PITDilationMasker(K))
    F32 = st.core.F32
    BIG = z3.FPVal(1e30, F32)

    def fresh(ex, names):
        shapes = {'alpha': (C,), 'beta': tuple(layer.timestep_masker.beta.shape), 'gamma': tuple(layer.dilation_masker.gamma.shape)}
        mods = {'alpha': layer.out_features_masker, 'beta': layer.timestep_masker, 'gamma': layer.dilation_masker}
        sy = {n: SymTensor.fresh_fp32(n, shapes[n]) for n in names}
        for t in sy.values():
            for v in t.elems():
                ex.assume(z3.Not(z3.fpIsNaN(v)), z3.fpLEQ(z3.fpAbs(v), BIG))
        return [(mods[n], n, sy[n]) for n in names], sy

    def fn(ex):
        out = []
        # features and time masks depend on disjoint parameters: two independent groups of queries
        pairs, sy = fresh(ex, ['alpha'])
        with SymMode(), swapped_params(pairs):
            fm = layer._features_mask(True)
        nf = z3.Sum([st.lift(v, 'r') for v in fm.elems()])
        r, m = ex.check(nf < 1)
        out.append(('features_mask_all_zero', r, m, sy))
        r, _ = ex.check(nf >= C, z3.fpGT(sy['alpha'].elems()[0], z3.FPVal(1e29, F32)))
        out.append(('witness', r, None, sy))
        pairs, sy = fresh(ex, ['beta', 'gamma'])
        with SymMode(), swapped_params(pairs):
            tm = layer._time_mask(True)
        el = [st.lift(v, 'r') for v in tm.elems()]
        nt = z3.Sum(el)
        lim = 2 if (selftest and K >= 2) else 1
        # lemma first (a much smaller formula): the most recent tap alone is alive; only if that cannot be shown, the full disjunction
        r, m = ex.check(el[-1] < 1) if lim == 1 else ('sat', None)
        if r != 'unsat':
            r, m = ex.check(nt < lim)
        out.append(('time_mask_all_zero', r, m, sy))
        r, _ = ex.check(el[-1] >= 1, z3.fpGT(sy['beta'].elems()[0], z3.FPVal(1e29, F32)))
        out.append(('witness', r, None, sy))
        return out
    ex = Explorer(timeout_ms=Q_FP)
    for pc, out in ex.explore(fn):
        for name, r, m, sy in out:
            if name == 'witness':
                res.witnesses += 1
                res.witnesses_ok += 1 if r == 'sat' else 0
                continue
            if r == 'unknown':
                res.inconclusive.append(f'fp32 K={K} C={C} {name}: unknown')
                continue
            res.oblige(r == 'unsat')
            if r == 'sat':
                vals = {'alpha': ['1.0'] * C, 'beta': ['1.0'] * layer.timestep_masker.beta.numel(), 'gamma': ['1.0'] * layer.dilation_masker.gamma.numel()}
                vals.update({k: [repr(float(st.model_value(m, v))) for v in t.elems()] for k, t in sy.items()})
                rec = {'kind': 'fp32', 'K': K, 'C': C, 'values': vals, 'observable': name,
                       'key': f'layer_fp32:PITConv1d|K={K}|obs={name}' + ('|selftest' if selftest else '')}
                if selftest:
                    res.violations.append(dict(jsonable(rec), what='seeded oracle'))
                else:
                    _violation(res, rec, f'PITConv1d(K={K},C={C}) float32: {name} for {vals}')
    res.absorb(ex)
    res.sample({'K': K, 'C': C, 'float32': True, 'domain': 'every finite float32 with |v| <= 1e30'})


def _run_net(res, spec, wseed, selftest):
    pit, model, shape = pitlib.make_pit(spec, wseed)
    with torch.no_grad():
        orig = pitlib.out_shapes(model(torch.zeros(1, *shape)))     # the user's network, untouched by the conversion (C07)

    def fn(ex):
        pairs, sy = pitlib.fresh_masks(pit)
        with SymMode(), swapped_params(pairs):
            zeros = torch.zeros(1, *shape)
            obs, viol = net_observe(pit, shape, zeros, orig)
        return sy, obs, viol
    ex = Explorer(timeout_ms=60000)
    seen_viol = set()
    n = 0
    for pc, (sy, obs, viol) in ex.explore(fn):
        n += 1
        if selftest and viol is None and n % 2 == 0:
            viol = 'seeded'
        res.oblige(viol is None)
        m, grid = pitlib.grid_model(ex, sy)
        vals = pitlib.values_of(m, sy)
        res.sample({'program': pitlib.prog_id(spec), 'summary': obs.get('summary'), 'model': vals, 'violation': viol})
        if viol is None:
            # concolic validation of the path on the real code
            cobs, cviol = concrete_net(spec, vals, wseed)
            if cviol is None and jsonable(cobs.get('summary')) == jsonable(obs.get('summary')) and cobs.get('out_shape') == obs.get('out_shape'):
                res.validated += 1
            else:
                res.errors.append(f'concolic mismatch on {pitlib.prog_id(spec)}: engine {jsonable(obs)} real {jsonable(cobs)} {cviol} (grid={grid})')
        else:
            k = viol.split(':')[0]
            if k in seen_viol:
                continue
            seen_viol.add(k)
            rec = {'kind': 'net', 'spec': spec, 'wseed': wseed, 'values': vals, 'observable': viol,
                   'key': f'net:{pitlib.prog_id(spec)}|obs={viol}' + ('|selftest' if selftest else '')}
            if selftest:
                res.violations.append(dict(jsonable(rec), what='seeded oracle'))
            else:
                _violation(res, rec, f'{pitlib.prog_id(spec)}: {viol} with masks {jsonable(vals)}')
    res.witnesses += 1
    res.witnesses_ok += 1 if ex.n_paths >= 1 else 0
    res.absorb(ex)
