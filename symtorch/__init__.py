from .core import *          # noqa
from .core import _disable_current_modes  # noqa
from . import core, handlers  # noqa
