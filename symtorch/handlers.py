"""ATen operator handlers for SymTensor (element-wise on exact rationals / z3 terms)."""
import itertools
import math
from fractions import Fraction

import numpy as np
import torch
import z3

from . import core
from .core import (HANDLERS, EngineError, SymScalar, SymTensor, aten, conc, concretize_bool_array,
                   concretize_scalar, e_abs, e_add, e_and, e_cast, e_ceil, e_div, e_eq, e_exp, e_floor, e_floordiv,
                   e_ge, e_gt, e_le, e_log, e_lt, e_max, e_min, e_mod, e_mul, e_ne, e_neg, e_not, e_or, e_pow_int,
                   e_round, e_sigmoid, e_sqrt, e_sub, e_tanh, e_trunc, e_where, ewise, is_sym, kind_of, lift, meta_of,
                   reg, scalar_of, to_arr)


def _rt(a, b):
    return torch.result_type(meta_of(a) if isinstance(a, (torch.Tensor, SymScalar)) else a,
                             meta_of(b) if isinstance(b, (torch.Tensor, SymScalar)) else b)


def binop(fn, cmp=False, force_float=False):
    def h(a, b, alpha=1):
        if not (isinstance(alpha, int) and alpha == 1):
            al = conc(alpha)
            b = ewise(lambda y: e_mul(y, al), None, b) if isinstance(b, torch.Tensor) else e_mul(conc(b), al)
            if isinstance(b, SymTensor):
                pass
        if cmp:
            od = torch.bool
        else:
            od = _rt(a, b if not isinstance(b, SymTensor) or b.dtype is not None else 0.0)
            if force_float and not od.is_floating_point:
                od = torch.float32
        return ewise(fn, od, a, b)
    return h


def _binop_alpha(fn):
    def h(a, b, alpha=1):
        if not (isinstance(alpha, int) and alpha == 1):
            al = conc(alpha)
            if isinstance(b, torch.Tensor):
                b2 = ewise(lambda y: e_mul(y, al), b.dtype, b)
            else:
                b2 = e_mul(conc(b), al)
                b2 = SymScalar(b2) if is_sym(b2) else (float(b2) if isinstance(b2, Fraction) and not isinstance(b, int) else b2)
            b = b2
        od = _rt(a, b)
        return ewise(fn, od, a, b)
    return h


HANDLERS[aten.add.Tensor] = HANDLERS[aten.add.Scalar] = _binop_alpha(e_add)
HANDLERS[aten.sub.Tensor] = HANDLERS[aten.sub.Scalar] = _binop_alpha(e_sub)
HANDLERS[aten.mul.Tensor] = HANDLERS[aten.mul.Scalar] = binop(e_mul)
HANDLERS[aten.rsub.Scalar] = HANDLERS[aten.rsub.Tensor] = lambda a, b, alpha=1: _binop_alpha(e_sub)(b, a) if alpha == 1 else _rsub(a, b, alpha)
for _n, _f in (('gt', e_gt), ('ge', e_ge), ('lt', e_lt), ('le', e_le), ('eq', e_eq), ('ne', e_ne)):
    HANDLERS[getattr(aten, _n).Scalar] = HANDLERS[getattr(aten, _n).Tensor] = binop(_f, cmp=True)
HANDLERS[aten.floor_divide.default] = binop(e_floordiv)
HANDLERS[aten.remainder.Scalar] = HANDLERS[aten.remainder.Tensor] = binop(e_mod)


def _e_rshift(a, b):
    # arithmetic right shift of a (mathematical) integer by a concrete amount = floor division by 2^b
    if is_sym(b):
        raise EngineError("symbolic shift amount")
    return e_floordiv(a, 2 ** int(b))


def _e_lshift(a, b):
    if is_sym(b):
        raise EngineError("symbolic shift amount")
    return e_mul(a, 2 ** int(b))


for _ov in ('Tensor', 'Tensor_Scalar'):
    if hasattr(aten.bitwise_right_shift, _ov):
        HANDLERS[getattr(aten.bitwise_right_shift, _ov)] = binop(_e_rshift)
        HANDLERS[getattr(aten.bitwise_left_shift, _ov)] = binop(_e_lshift)
HANDLERS[aten.maximum.default] = binop(e_max)
HANDLERS[aten.minimum.default] = binop(e_min)


def _rsub(a, b, alpha):
    al = conc(alpha)
    return ewise(lambda x, y: e_sub(y, e_mul(x, al)), _rt(a, b), a, b)


@reg(aten.div.Tensor, aten.div.Scalar)
def _div(a, b):
    od = _rt(a, b)
    if not od.is_floating_point:
        od = torch.float32
    return ewise(e_div, od, a, b)


@reg(aten.div.Tensor_mode, aten.div.Scalar_mode)
def _div_mode(a, b, rounding_mode=None):
    if rounding_mode == 'floor':
        return binop(e_floordiv)(a, b)
    if rounding_mode is None:
        return _div(a, b)
    if rounding_mode == 'trunc':
        od = _rt(a, b)
        return ewise(lambda x, y: e_trunc(e_div(x, y)), od, a, b)
    raise EngineError(rounding_mode)


def unop(fn, keep_dtype=True, float_out=False):
    def h(a, *rest, **kw):
        od = a.dtype
        if float_out and not od.is_floating_point:
            od = torch.float32
        return ewise(fn, od, a)
    return h


HANDLERS[aten.abs.default] = unop(e_abs)
HANDLERS[aten.neg.default] = unop(e_neg)
HANDLERS[aten.floor.default] = unop(e_floor)
HANDLERS[aten.ceil.default] = unop(e_ceil)
HANDLERS[aten.trunc.default] = unop(e_trunc)
HANDLERS[aten.round.default] = unop(e_round)
HANDLERS[aten.exp.default] = unop(e_exp, float_out=True)
HANDLERS[aten.log.default] = unop(e_log, float_out=True)
HANDLERS[aten.sqrt.default] = unop(e_sqrt, float_out=True)
HANDLERS[aten.rsqrt.default] = unop(lambda v: e_div(1, e_sqrt(v)), float_out=True)
HANDLERS[aten.sigmoid.default] = unop(e_sigmoid, float_out=True)
HANDLERS[aten.tanh.default] = unop(e_tanh, float_out=True)
HANDLERS[aten.reciprocal.default] = unop(lambda v: e_div(1, v), float_out=True)
HANDLERS[aten.relu.default] = unop(lambda v: e_where(e_gt(v, 0), v, Fraction(0) if kind_of(v) == 'r' else 0))
HANDLERS[aten.sgn.default] = HANDLERS[aten.sign.default] = unop(
    lambda v: e_where(e_gt(v, 0), Fraction(1), e_where(e_lt(v, 0), Fraction(-1), Fraction(0))))
HANDLERS[aten.bitwise_not.default] = HANDLERS[aten.logical_not.default] = lambda x: ewise(e_not, torch.bool, x)
HANDLERS[aten.logical_and.default] = lambda a, b: ewise(e_and, torch.bool, a, b)
HANDLERS[aten.logical_or.default] = lambda a, b: ewise(e_or, torch.bool, a, b)
HANDLERS[aten.isnan.default] = lambda x: ewise(lambda v: False, torch.bool, x)
HANDLERS[aten.isinf.default] = lambda x: ewise(lambda v: core._isinf(v), torch.bool, x)


def _bw(fn):
    def h(a, b):
        da = a.dtype if isinstance(a, torch.Tensor) else torch.bool
        db = b.dtype if isinstance(b, torch.Tensor) else torch.bool
        if da != torch.bool or db != torch.bool:
            raise EngineError("bitwise and/or only modelled on bool tensors")
        return ewise(fn, torch.bool, a, b)
    return h


HANDLERS[aten.bitwise_and.Tensor] = _bw(e_and)
HANDLERS[aten.bitwise_or.Tensor] = _bw(e_or)


@reg(aten.relu_.default)
def _relu_(x):
    return _copy_(x, HANDLERS[aten.relu.default](x))


@reg(aten.threshold_backward.default)
def _threshold_backward(grad, x, threshold):
    th = conc(threshold)
    return ewise(lambda g, v: e_where(e_le(v, th), Fraction(0), g), grad.dtype, grad, x)


@reg(aten.select_backward.default)
def _select_backward(grad, input_sizes, dim, index):
    sizes = [int(conc(v)) for v in input_sizes]
    out = np.empty(sizes, dtype=object)
    out[...] = Fraction(0)
    idx = [slice(None)] * len(sizes)
    idx[int(dim)] = int(conc(index))
    out[tuple(idx)] = to_arr(grad)
    return SymTensor.from_array(out, grad.dtype)


@reg(aten.pow.Tensor_Scalar)
def _pow_ts(a, n):
    n = conc(n)
    if is_sym(n):
        raise EngineError("symbolic exponent")
    if isinstance(n, Fraction) and n.denominator != 1:
        if n == Fraction(1, 2):
            return HANDLERS[aten.sqrt.default](a)
        raise EngineError(f"non-integer power {n}")
    od = a.dtype if (a.dtype.is_floating_point or (int(n) >= 0 and isinstance(n, int))) else torch.float32
    return ewise(lambda v: e_pow_int(v, int(n)), od, a)


@reg(aten.pow.Scalar)
def _pow_st(base, e):
    """base ** tensor: only concrete integer exponents after forking (used for 2**bits)"""
    b = conc(base)
    E = to_arr(e)
    out = np.empty(E.shape, dtype=object)
    for idx in np.ndindex(*E.shape):
        n = concretize_scalar(E[idx])
        out[idx] = e_pow_int(b, n)
    return SymTensor.from_array(out, torch.result_type(base, meta_of(e)))


@reg(aten.pow.Tensor_Tensor)
def _pow_tt(a, e):
    A, E = np.broadcast_arrays(to_arr(a), to_arr(e))
    out = np.empty(A.shape, dtype=object)
    for idx in np.ndindex(*A.shape):
        n = concretize_scalar(E[idx])
        out[idx] = e_pow_int(A[idx], n)
    return SymTensor.from_array(out, _rt(a, e))


@reg(aten.clamp.default, aten.clamp.Tensor)
def _clamp(x, min=None, max=None):
    def f(v, lo=None, hi=None):
        if lo is not None:
            v = e_max(v, lo)
        if hi is not None:
            v = e_min(v, hi)
        return v
    od = x.dtype
    if min is not None and max is not None:
        return ewise(lambda v, lo, hi: f(v, lo, hi), od, x, min, max)
    if min is not None:
        return ewise(lambda v, lo: f(v, lo, None), od, x, min)
    if max is not None:
        return ewise(lambda v, hi: f(v, None, hi), od, x, max)
    return ewise(lambda v: v, od, x)


@reg(aten.clamp_min.default, aten.clamp_min.Tensor)
def _clamp_min(x, min):
    return _clamp(x, min=min)


@reg(aten.clamp_max.default, aten.clamp_max.Tensor)
def _clamp_max(x, max):
    return _clamp(x, max=max)


@reg(aten.where.self, aten.where.ScalarOther, aten.where.ScalarSelf, aten.where.Scalar)
def _where(c, a, b):
    return ewise(e_where, _rt(a, b), c, a, b)


@reg(aten._to_copy.default)
def _to_copy(a, dtype=None, **kw):
    return ewise(lambda v: v, dtype or a.dtype, a)


@reg(aten.clone.default, aten.contiguous.default)
def _clone(a, **kw):
    return ewise(lambda v: v, a.dtype, a)


@reg(aten.detach.default, aten.alias.default, aten.lift_fresh.default)
def _detach(a):
    return SymTensor(a._st, a.size(), a.stride(), a.storage_offset(), a.dtype)


@reg(aten.lift_fresh_copy.default)
def _lift_fresh_copy(a):
    return _clone(a)


def _zero(dtype):
    return Fraction(0) if dtype.is_floating_point else (False if dtype == torch.bool else 0)


def _reduce(arr, dims, keepdim, fn, init):
    nd = arr.ndim
    if dims is None or (isinstance(dims, (list, tuple)) and len(dims) == 0):
        dims = tuple(range(nd))
    elif isinstance(dims, int):
        dims = (dims % max(nd, 1),)
    else:
        dims = tuple(d % max(nd, 1) for d in dims)
    if nd == 0:
        res = np.empty((), dtype=object)
        res[()] = fn(init, arr[()]) if init is not None else arr[()]
        return res
    res = np.empty([1 if (i in dims) else s for i, s in enumerate(arr.shape)], dtype=object)
    for idx in np.ndindex(*res.shape):
        acc = init
        ranges = [range(arr.shape[i]) if i in dims else [idx[i]] for i in range(nd)]
        for j in itertools.product(*ranges):
            acc = arr[j] if acc is None else fn(acc, arr[j])
        res[idx] = acc
    if not keepdim:
        res = res.reshape([s for i, s in enumerate(arr.shape) if i not in dims])
    return res


@reg(aten.sum.default)
def _sum(a, dtype=None):
    od = dtype or (torch.int64 if not a.dtype.is_floating_point else a.dtype)
    arr = to_arr(a)
    acc = _zero(od)
    for v in arr.reshape(-1):
        acc = e_add(acc, e_cast(v, od))
    return SymTensor.from_array(np.array(acc, dtype=object), od)


@reg(aten.sum.dim_IntList)
def _sum_dim(a, dim=None, keepdim=False, dtype=None):
    od = dtype or (torch.int64 if not a.dtype.is_floating_point else a.dtype)
    arr = to_arr(a)
    res = _reduce(arr, dim, keepdim, lambda acc, v: e_add(acc, e_cast(v, od)), _zero(od))
    return SymTensor.from_array(res, od)


@reg(aten.mean.default)
def _mean(a, dtype=None):
    s = _sum(a, dtype)
    n = a.numel()
    return ewise(lambda v: e_div(v, n), a.dtype, s)


@reg(aten.mean.dim)
def _mean_dim(a, dim, keepdim=False, dtype=None):
    s = _sum_dim(a, dim, keepdim, dtype)
    n = a.numel() // max(s.numel(), 1)
    return ewise(lambda v: e_div(v, n), a.dtype, s)


@reg(aten.prod.default)
def _prod(a, dtype=None):
    od = dtype or (torch.int64 if not a.dtype.is_floating_point else a.dtype)
    acc = Fraction(1) if od.is_floating_point else 1
    for v in to_arr(a).reshape(-1):
        acc = e_mul(acc, e_cast(v, od))
    return SymTensor.from_array(np.array(acc, dtype=object), od)


@reg(aten.any.default)
def _any(a):
    acc = False
    for v in to_arr(a).reshape(-1):
        acc = e_or(acc, e_cast(v, torch.bool))
    return SymTensor.from_array(np.array(acc, dtype=object), torch.bool)


@reg(aten.all.default)
def _all(a):
    acc = True
    for v in to_arr(a).reshape(-1):
        acc = e_and(acc, e_cast(v, torch.bool))
    return SymTensor.from_array(np.array(acc, dtype=object), torch.bool)


@reg(aten.any.dim)
def _any_dim(a, dim, keepdim=False):
    res = _reduce(to_arr(a), dim, keepdim, lambda acc, v: e_or(acc, e_cast(v, torch.bool)), False)
    return SymTensor.from_array(res, torch.bool)


@reg(aten.all.dim)
def _all_dim(a, dim, keepdim=False):
    res = _reduce(to_arr(a), dim, keepdim, lambda acc, v: e_and(acc, e_cast(v, torch.bool)), True)
    return SymTensor.from_array(res, torch.bool)


@reg(aten.amax.default)
def _amax(a, dim=(), keepdim=False):
    return SymTensor.from_array(_reduce(to_arr(a), dim, keepdim, e_max, None), a.dtype)


@reg(aten.amin.default)
def _amin(a, dim=(), keepdim=False):
    return SymTensor.from_array(_reduce(to_arr(a), dim, keepdim, e_min, None), a.dtype)


@reg(aten.max.default)
def _max(a):
    return _amax(a)


@reg(aten.min.default)
def _min(a):
    return _amin(a)


@reg(aten.aminmax.default)
def _aminmax(a, dim=None, keepdim=False):
    return _amin(a, dim if dim is not None else (), keepdim), _amax(a, dim if dim is not None else (), keepdim)


def argmax_1d(vals, first=True):
    """index of the maximum (first occurrence on ties): one fork per candidate winner (n paths, not 2^(n-1) comparison orders)"""
    n = len(vals)
    if n == 1:
        return 0
    for k in range(n - 1):
        conds = [e_gt(vals[k], vals[j]) for j in range(k)] + [e_ge(vals[k], vals[j]) for j in range(k + 1, n)]
        if any(c is False for c in conds):
            continue
        conds = [lift(c, 'b') for c in conds if c is not True]
        if core.CUR.branch(z3.And(conds) if len(conds) > 1 else (conds[0] if conds else True)):
            return k
    return n - 1


def argmin_1d(vals):
    n = len(vals)
    if n == 1:
        return 0
    for k in range(n - 1):
        conds = [e_lt(vals[k], vals[j]) for j in range(k)] + [e_le(vals[k], vals[j]) for j in range(k + 1, n)]
        if any(c is False for c in conds):
            continue
        conds = [lift(c, 'b') for c in conds if c is not True]
        if core.CUR.branch(z3.And(conds) if len(conds) > 1 else (conds[0] if conds else True)):
            return k
    return n - 1


def _arg_red(x, dim, keepdim, fn1d):
    X = to_arr(x)
    if dim is None:
        return SymTensor.from_array(np.array(fn1d(list(X.reshape(-1))), dtype=object), torch.int64)
    dim = dim % X.ndim
    Xm = np.moveaxis(X, dim, -1)
    out = np.empty(Xm.shape[:-1], dtype=object)
    for idx in np.ndindex(*out.shape):
        out[idx] = fn1d(list(Xm[idx]))
    if keepdim:
        out = np.expand_dims(out, dim)
    return SymTensor.from_array(out, torch.int64)


@reg(aten.argmax.default)
def _argmax(x, dim=None, keepdim=False):
    return _arg_red(x, dim, keepdim, argmax_1d)


@reg(aten.argmin.default)
def _argmin(x, dim=None, keepdim=False):
    return _arg_red(x, dim, keepdim, argmin_1d)


def _minmax_dim(x, dim, keepdim, better):
    """values by an If-chain (no forking); the index is a z3 Int term (first occurrence), concretised only if it is used"""
    X = to_arr(x)
    dim = dim % X.ndim
    Xm = np.moveaxis(X, dim, -1)
    vals = np.empty(Xm.shape[:-1], dtype=object)
    idxs = np.empty(Xm.shape[:-1], dtype=object)
    for idx in np.ndindex(*vals.shape):
        row = list(Xm[idx])
        best, bi = row[0], 0
        for i in range(1, len(row)):
            c = better(row[i], best)
            best = e_where(c, row[i], best)
            bi = e_where(c, i, bi)
        vals[idx] = best
        idxs[idx] = bi
    if keepdim:
        vals = np.expand_dims(vals, dim)
        idxs = np.expand_dims(idxs, dim)
    return SymTensor.from_array(vals, x.dtype), SymTensor.from_array(idxs, torch.int64)


@reg(aten.max.dim)
def _maxdim(x, dim, keepdim=False):
    return _minmax_dim(x, dim, keepdim, e_gt)


@reg(aten.min.dim)
def _mindim(x, dim, keepdim=False):
    return _minmax_dim(x, dim, keepdim, e_lt)


@reg(aten.sort.default, aten.sort.stable)
def _sort(x, *a, **kw):
    if 'stable' in kw or (a and isinstance(a[0], (bool, type(None)))):
        # sort.stable(self, *, stable, dim=-1, descending=False)
        dim = kw.get('dim', -1)
        descending = kw.get('descending', False)
    else:
        dim = kw.get('dim', a[0] if len(a) > 0 else -1)
        descending = kw.get('descending', a[1] if len(a) > 1 else False)
    X = to_arr(x)
    dim = dim % X.ndim
    Xm = np.moveaxis(X, dim, -1)
    V = np.empty(Xm.shape, dtype=object)
    I = np.empty(Xm.shape, dtype=object)
    for idx in np.ndindex(*Xm.shape[:-1]):
        row = list(Xm[idx])
        order = []
        for i in range(len(row)):           # insertion sort with forking comparisons (stable)
            pos = len(order)
            for p, j in enumerate(order):
                before = e_gt(row[i], row[j]) if descending else e_lt(row[i], row[j])
                if core.CUR.branch(before):
                    pos = p
                    break
            order.insert(pos, i)
        for k, j in enumerate(order):
            V[idx + (k,)] = row[j]
            I[idx + (k,)] = j
    return SymTensor.from_array(np.moveaxis(V, -1, dim), x.dtype), SymTensor.from_array(np.moveaxis(I, -1, dim), torch.int64)


@reg(aten.argsort.default, aten.argsort.stable)
def _argsort(x, *a, **kw):
    return _sort(x, *a, **kw)[1]


@reg(aten.topk.default)
def _topk(x, k, dim=-1, largest=True, sorted=True):
    v, i = _sort(x, dim, largest)
    sl = [slice(None)] * v.dim()
    sl[dim] = slice(0, k)
    return SymTensor.from_array(to_arr(v)[tuple(sl)], x.dtype), SymTensor.from_array(to_arr(i)[tuple(sl)], torch.int64)


# linear algebra ------------------------------------------------------------------------------------------------------
def _dot(us, vs):
    acc = Fraction(0)
    for u, v in zip(us, vs):
        acc = e_add(acc, e_mul(u, v))
    return acc


@reg(aten.mv.default)
def _mv(m, v):
    M, V = to_arr(m), to_arr(v)
    if M.ndim != 2 or V.ndim != 1 or M.shape[1] != V.shape[0]:
        raise RuntimeError(f"size mismatch, got input ({M.shape}), vec ({V.shape})")
    out = np.empty(M.shape[0], dtype=object)
    for i in range(M.shape[0]):
        out[i] = _dot(M[i], V)
    return SymTensor.from_array(out, m.dtype)


@reg(aten.dot.default)
def _dotp(a, b):
    if a.dim() != 1 or b.dim() != 1:
        raise RuntimeError("1D tensors expected, but got {}D and {}D tensors".format(a.dim(), b.dim()))
    return SymTensor.from_array(np.array(_dot(to_arr(a), to_arr(b)), dtype=object), a.dtype)


@reg(aten.mm.default)
def _mm(a, b):
    A, B = to_arr(a), to_arr(b)
    if A.ndim != 2 or B.ndim != 2 or A.shape[1] != B.shape[0]:
        raise RuntimeError(f"mat1 and mat2 shapes cannot be multiplied ({A.shape[0]}x{A.shape[1] if A.ndim > 1 else ''} and {B.shape[0]}x{B.shape[1] if B.ndim > 1 else ''})")
    out = np.empty((A.shape[0], B.shape[1]), dtype=object)
    for i in range(A.shape[0]):
        for k in range(B.shape[1]):
            out[i, k] = _dot(A[i], B[:, k])
    return SymTensor.from_array(out, a.dtype)


@reg(aten.bmm.default)
def _bmm(a, b):
    A, B = to_arr(a), to_arr(b)
    out = np.empty((A.shape[0], A.shape[1], B.shape[2]), dtype=object)
    for n in range(A.shape[0]):
        for i in range(A.shape[1]):
            for k in range(B.shape[2]):
                out[n, i, k] = _dot(A[n, i], B[n, :, k])
    return SymTensor.from_array(out, a.dtype)


@reg(aten.addmm.default)
def _addmm(bias, a, b, beta=1, alpha=1):
    r = _mm(a, b)
    if alpha != 1:
        r = HANDLERS[aten.mul.Tensor](r, alpha)
    if beta != 1:
        bias = HANDLERS[aten.mul.Tensor](bias, beta)
    return HANDLERS[aten.add.Tensor](r, bias)


@reg(aten.convolution.default)
def _conv(x, w, b, stride, padding, dilation, transposed, output_padding, groups):
    if transposed:
        raise EngineError("transposed convolution")
    X, W = to_arr(x), to_arr(w)
    unbatched = X.ndim == W.ndim - 1
    if unbatched:
        X = X[None]
    nd = X.ndim - 2
    stride = list(stride) * nd if len(stride) == 1 else list(stride)
    padding = list(padding) * nd if len(padding) == 1 else list(padding)
    dilation = list(dilation) * nd if len(dilation) == 1 else list(dilation)
    N, Cin = X.shape[:2]
    Cout = W.shape[0]
    cin_g = Cin // groups
    cout_g = Cout // groups
    if W.shape[1] != cin_g:
        raise RuntimeError(f"convolution: weight expects {W.shape[1]} input channels per group, input has {Cin}/{groups}")
    B = to_arr(b) if b is not None else None
    sp_in = X.shape[2:]
    K = W.shape[2:]
    sp_out = [(sp_in[i] + 2 * padding[i] - dilation[i] * (K[i] - 1) - 1) // stride[i] + 1 for i in range(nd)]
    if any(s <= 0 for s in sp_out):
        raise RuntimeError(f"convolution: kernel size can't be greater than actual input size (output {sp_out})")
    out = np.empty((N, Cout, *sp_out), dtype=object)
    kidx = list(np.ndindex(*K))
    for n in range(N):
        for co in range(Cout):
            g = co // cout_g
            for o in np.ndindex(*sp_out):
                acc = B[co] if B is not None else Fraction(0)
                for ci in range(cin_g):
                    for k in kidx:
                        ok = True
                        pos = []
                        for i in range(nd):
                            p = o[i] * stride[i] - padding[i] + k[i] * dilation[i]
                            if p < 0 or p >= sp_in[i]:
                                ok = False
                                break
                            pos.append(p)
                        if ok:
                            acc = e_add(acc, e_mul(W[(co, ci) + k], X[(n, g * cin_g + ci) + tuple(pos)]))
                out[(n, co) + o] = acc
    if unbatched:
        out = out[0]
    return SymTensor.from_array(out, x.dtype)


@reg(aten.constant_pad_nd.default)
def _pad(x, pad, value=0):
    X = to_arr(x)
    pw = [(0, 0)] * X.ndim
    for i in range(len(pad) // 2):
        pw[X.ndim - 1 - i] = (int(pad[2 * i]), int(pad[2 * i + 1]))
    crop = tuple(slice(max(-a, 0), s - max(-b, 0)) for s, (a, b) in zip(X.shape, pw))
    X = X[crop]
    pw = [(max(a, 0), max(b, 0)) for a, b in pw]
    shape = [s + a + b for s, (a, b) in zip(X.shape, pw)]
    out = np.empty(shape, dtype=object)
    out.fill(e_cast(conc(value), x.dtype))
    sl = tuple(slice(a, a + s) for s, (a, b) in zip(X.shape, pw))
    out[sl] = X
    return SymTensor.from_array(out, x.dtype)


def CUR_EXPLORER():
    from . import core as _c
    if _c.CUR is None:
        raise EngineError("random op outside an exploration")
    return _c.CUR


@reg(aten.native_dropout.default)
def _native_dropout(x, p, train):
    # training-mode dropout: every element is either dropped or scaled by 1/(1-p); the mask is an arbitrary boolean per element
    if not train:
        return x, SymTensor.from_array(np.ones(to_arr(x).shape, dtype=object), torch.bool)
    ex = CUR_EXPLORER()
    X = to_arr(x)
    keep = np.empty(X.shape, dtype=object)
    out = np.empty(X.shape, dtype=object)
    q = Fraction(1) / (Fraction(1) - Fraction(conc(p)))
    for idx in np.ndindex(*X.shape):
        b = ex.fresh('drop', 'b')
        keep[idx] = b
        out[idx] = e_where(b, e_mul(X[idx], q), Fraction(0))
    return SymTensor.from_array(out, x.dtype), SymTensor.from_array(keep, torch.bool)


def _index_pad(mode):
    """replication / reflection padding: every output element is one of the input elements (index map built with numpy on an index grid)"""
    def h(x, pad):
        X = to_arr(x)
        pw = [(0, 0)] * X.ndim
        for i in range(len(pad) // 2):
            pw[X.ndim - 1 - i] = (int(pad[2 * i]), int(pad[2 * i + 1]))
        idx = np.arange(X.size).reshape(X.shape)
        idx = np.pad(idx, pw, mode=mode)
        flat = X.reshape(-1)
        out = np.empty(idx.shape, dtype=object)
        for pos in np.ndindex(*idx.shape):
            out[pos] = flat[idx[pos]]
        return SymTensor.from_array(out, x.dtype)
    return h


for _name, _mode in (('replication_pad1d', 'edge'), ('replication_pad2d', 'edge'), ('replication_pad3d', 'edge'),
                     ('reflection_pad1d', 'reflect'), ('reflection_pad2d', 'reflect'), ('reflection_pad3d', 'reflect')):
    if hasattr(aten, _name):
        HANDLERS[getattr(aten, _name).default] = _index_pad(_mode)


def _pair(v, n=2):
    if isinstance(v, (list, tuple)):
        return list(v) * n if len(v) == 1 else list(v)
    return [v] * n


def _pool2d(x, kernel_size, stride, padding, ceil_mode, red, pad_val, dilation=1):
    X = to_arr(x)
    k = _pair(kernel_size)
    s = _pair(stride) if stride not in (None, [], ()) else k
    p = _pair(padding)
    d = _pair(dilation)
    if ceil_mode:
        raise EngineError("ceil_mode pooling")
    H, W = X.shape[-2:]
    oh = (H + 2 * p[0] - d[0] * (k[0] - 1) - 1) // s[0] + 1
    ow = (W + 2 * p[1] - d[1] * (k[1] - 1) - 1) // s[1] + 1
    out = np.empty(X.shape[:-2] + (oh, ow), dtype=object)
    for idx in np.ndindex(*out.shape):
        pre, (i, j) = idx[:-2], idx[-2:]
        vals = []
        for a in range(k[0]):
            for b in range(k[1]):
                r, c = i * s[0] - p[0] + a * d[0], j * s[1] - p[1] + b * d[1]
                if 0 <= r < H and 0 <= c < W:
                    vals.append(X[pre + (r, c)])
                elif pad_val is not None:
                    vals.append(pad_val)
        out[idx] = red(vals, k[0] * k[1])
    return out


@reg(aten.max_pool2d_with_indices.default)
def _maxpool2d(x, kernel_size, stride=None, padding=0, dilation=1, ceil_mode=False):
    def red(vals, n):
        v = vals[0]
        for u in vals[1:]:
            v = e_max(v, u)
        return v
    out = _pool2d(x, kernel_size, stride, padding, ceil_mode, red, None, dilation)
    return SymTensor.from_array(out, x.dtype), SymTensor.from_array(np.zeros(out.shape, dtype=object), torch.int64)


@reg(aten.avg_pool2d.default)
def _avgpool2d(x, kernel_size, stride=None, padding=0, ceil_mode=False, count_include_pad=True, divisor_override=None):
    if divisor_override is not None:
        raise EngineError("divisor_override")

    def red(vals, n):
        acc = Fraction(0)
        for v in vals:
            acc = e_add(acc, v)
        return e_div(acc, n if count_include_pad else len(vals))
    out = _pool2d(x, kernel_size, stride, padding, ceil_mode, red, Fraction(0) if count_include_pad else None)
    return SymTensor.from_array(out, x.dtype)


@reg(aten._adaptive_avg_pool2d.default)
def _adaptive_avgpool2d(x, output_size):
    X = to_arr(x)
    H, W = X.shape[-2:]
    oh, ow = output_size
    out = np.empty(X.shape[:-2] + (oh, ow), dtype=object)
    for idx in np.ndindex(*out.shape):
        pre, (i, j) = idx[:-2], idx[-2:]
        r0, r1 = (i * H) // oh, -((-(i + 1) * H) // oh)
        c0, c1 = (j * W) // ow, -((-(j + 1) * W) // ow)
        acc = Fraction(0)
        for r in range(r0, r1):
            for c in range(c0, c1):
                acc = e_add(acc, X[pre + (r, c)])
        out[idx] = e_div(acc, (r1 - r0) * (c1 - c0))
    return SymTensor.from_array(out, x.dtype)


def _bn_eval(x, weight, bias, mean, var, eps):
    X = to_arr(x)
    C = X.shape[1]
    Wt = to_arr(weight) if weight is not None else None
    Bs = to_arr(bias) if bias is not None else None
    M, V = to_arr(mean), to_arr(var)
    out = np.empty(X.shape, dtype=object)
    # concrete statistics: compute the per-channel scale in float32 exactly as torch does (concrete-first rule)
    for c in range(C):
        v = V[c]
        if not is_sym(v):
            inv = conc(float(1.0 / np.sqrt(np.float32(float(v)) + np.float32(eps), dtype=np.float32)))
        else:
            inv = e_div(1, e_sqrt(e_add(v, conc(float(eps)))))
        for idx in np.ndindex(*((X.shape[0],) + X.shape[2:])):
            full = (idx[0], c) + idx[1:]
            t = e_mul(e_sub(X[full], M[c]), inv)
            if Wt is not None:
                t = e_mul(t, Wt[c])
            if Bs is not None:
                t = e_add(t, Bs[c])
            out[full] = t
    return SymTensor.from_array(out, x.dtype)


@reg(aten.native_batch_norm.default)
def _native_bn(x, weight, bias, mean, var, training, momentum, eps):
    if training:
        raise EngineError("train-mode batch norm is not modelled")
    out = _bn_eval(x, weight, bias, mean, var, eps)
    C = x.shape[1]
    e = SymTensor.from_array(np.zeros((0,), dtype=object), x.dtype)
    return out, e, e


@reg(aten._native_batch_norm_legit_no_training.default)
def _native_bn_nt(x, weight, bias, mean, var, momentum, eps):
    out = _bn_eval(x, weight, bias, mean, var, eps)
    e = SymTensor.from_array(np.zeros((0,), dtype=object), x.dtype)
    return out, e, e


@reg(aten._native_batch_norm_legit.default)
def _native_bn_legit(x, weight, bias, mean, var, training, momentum, eps):
    return _native_bn(x, weight, bias, mean, var, training, momentum, eps)


@reg(aten.cudnn_batch_norm.default)
def _cudnn_bn(*a, **k):
    raise EngineError("cudnn batch norm")


SOFTMAX_ABSTRACT = True


@reg(aten._softmax.default)
def _softmax(x, dim, half_to_float):
    """softmax over symbolic logits.  Default model: an arbitrary ORDER-PRESERVING MAP INTO THE OPEN SIMPLEX - the outputs of each
    group are fresh reals constrained by theta_i > 0, sum theta = 1, (x_i > x_j <=> theta_i > theta_j), (x_i = x_j <=> theta_i = theta_j) and
    congruence (equal logits give equal outputs across calls).  The real softmax is one such map, so whatever is proved for all of them
    holds for it.  With SOFTMAX_ABSTRACT = False the outputs are exp(x_i) / sum exp(x_j) with exp an uninterpreted increasing function."""
    X = to_arr(x)
    ex = core.CUR
    dim = dim % max(X.ndim, 1)
    if SOFTMAX_ABSTRACT and X.ndim:
        out = np.empty(X.shape, dtype=object)
        Xm, Om = np.moveaxis(X, dim, -1), np.moveaxis(out, dim, -1)
        cache = ex.uf_cache.setdefault('softmax_groups', [])
        for idx in np.ndindex(*Xm.shape[:-1]):
            xs = [lift(v, 'r') for v in Xm[idx]]
            key = tuple(v.get_id() for v in xs)
            hit = next((o for k, _, o in cache if k == key), None)
            if hit is None:
                os_ = [ex.fresh('sm', 'r') for _ in xs]
                for o in os_:
                    ex.add_axiom(o > 0)
                    ex.add_axiom(o <= 1)
                ex.add_axiom(z3.Sum(os_) == 1)
                for i in range(len(xs)):
                    for j in range(i + 1, len(xs)):
                        ex.add_axiom(z3.Implies(xs[i] > xs[j], os_[i] > os_[j]))
                        ex.add_axiom(z3.Implies(xs[i] < xs[j], os_[i] < os_[j]))
                        ex.add_axiom(z3.Implies(xs[i] == xs[j], os_[i] == os_[j]))
                for k2, xs2, os2 in cache:
                    if len(xs2) == len(xs):
                        ex.add_axiom(z3.Implies(z3.And([a == b for a, b in zip(xs, xs2)]), z3.And([a == b for a, b in zip(os_, os2)])))
                cache.append((key, xs, os_))
                hit = os_
            for k_, o in enumerate(hit):
                Om[idx + (k_,)] = o
        return SymTensor.from_array(out, x.dtype)
    E = np.empty(X.shape, dtype=object)
    for idx in np.ndindex(*X.shape):
        E[idx] = e_exp(X[idx])
    out = np.empty(X.shape, dtype=object)
    tot = _reduce(E, dim, True, e_add, Fraction(0)) if X.ndim else E
    ng = len(core.CUR.guards)
    for idx in np.ndindex(*X.shape):
        k = list(idx)
        if X.ndim:
            k[dim] = 0
        out[idx] = e_div(E[idx], tot[tuple(k)] if X.ndim else tot[()])
    # the denominator is a sum of positive terms: its division guards are discharged here
    del core.CUR.guards[ng:]
    return SymTensor.from_array(out, x.dtype)


def _is_softmax_den(g, tot):
    try:
        lhs = g.arg(0)
    except Exception:
        return False
    for t in tot.reshape(-1):
        if is_sym(t) and lhs.eq(lift(t, 'r')):
            return True
    return False


@reg(aten._softmax_backward_data.default)
def _softmax_bwd(grad, out, dim, input_dtype):
    G, Y = to_arr(grad), to_arr(out)
    dim = dim % max(G.ndim, 1)
    GY = np.empty(G.shape, dtype=object)
    for idx in np.ndindex(*G.shape):
        GY[idx] = e_mul(G[idx], Y[idx])
    S = _reduce(GY, dim, True, e_add, Fraction(0))
    res = np.empty(G.shape, dtype=object)
    for idx in np.ndindex(*G.shape):
        k = list(idx)
        k[dim] = 0
        res[idx] = e_mul(Y[idx], e_sub(G[idx], S[tuple(k)]))
    return SymTensor.from_array(res, grad.dtype)


@reg(aten._log_softmax.default)
def _log_softmax(x, dim, half_to_float):
    sm = _softmax(x, dim, half_to_float)
    return HANDLERS[aten.log.default](sm)


# data movement -------------------------------------------------------------------------------------------------------
@reg(aten.cat.default)
def _cat(ts, dim=0):
    arrs = [to_arr(t) for t in ts if not (t.dim() == 1 and t.numel() == 0 and len(ts) > 1)]
    dt = ts[0].dtype
    for t in ts[1:]:
        dt = torch.promote_types(dt, t.dtype)
    out = np.concatenate(arrs, axis=dim)
    o2 = np.empty(out.shape, dtype=object)
    for idx in np.ndindex(*out.shape):
        o2[idx] = e_cast(out[idx], dt)
    return SymTensor.from_array(o2, dt)


@reg(aten.stack.default)
def _stack(ts, dim=0):
    dt = ts[0].dtype
    for t in ts[1:]:
        dt = torch.promote_types(dt, t.dtype)
    out = np.stack([to_arr(t) for t in ts], axis=dim)
    o2 = np.empty(out.shape, dtype=object)
    for idx in np.ndindex(*out.shape):
        o2[idx] = e_cast(out[idx], dt)
    return SymTensor.from_array(o2, dt)


@reg(aten.flip.default)
def _flip(x, dims):
    return SymTensor.from_array(np.flip(to_arr(x), axis=tuple(dims)).copy(), x.dtype)


@reg(aten.triu.default)
def _triu(x, diagonal=0):
    X = to_arr(x).copy()
    z = _zero(x.dtype)
    for idx in np.ndindex(*X.shape):
        if idx[-1] - idx[-2] < diagonal:
            X[idx] = z
    return SymTensor.from_array(X, x.dtype)


@reg(aten.tril.default)
def _tril(x, diagonal=0):
    X = to_arr(x).copy()
    z = _zero(x.dtype)
    for idx in np.ndindex(*X.shape):
        if idx[-1] - idx[-2] > diagonal:
            X[idx] = z
    return SymTensor.from_array(X, x.dtype)


@reg(aten.repeat.default)
def _repeat(x, repeats):
    X = to_arr(x)
    X = X.reshape((1,) * (len(repeats) - X.ndim) + X.shape)
    return SymTensor.from_array(np.tile(X, tuple(repeats)), x.dtype)


@reg(aten.repeat_interleave.self_int)
def _repeat_interleave(x, repeats, dim=None, output_size=None):
    X = to_arr(x)
    return SymTensor.from_array(np.repeat(X if dim is not None else X.reshape(-1), repeats, axis=dim if dim is not None else 0), x.dtype)


def _index_key(indices):
    key = []
    for ind in indices:
        if ind is None:
            key.append(slice(None))
        elif ind.dtype == torch.bool:
            key.append(concretize_bool_array(to_arr(ind)))
        else:
            ia = to_arr(ind)
            o = np.empty(ia.shape, dtype=np.int64)
            for idx in np.ndindex(*ia.shape):
                o[idx] = int(concretize_scalar(ia[idx]))
            key.append(o)
    return tuple(key)


@reg(aten.index.Tensor)
def _index(x, indices):
    X = to_arr(x)
    res = X[_index_key(indices)]
    if not isinstance(res, np.ndarray):
        r = np.empty((), dtype=object)
        r[()] = res
        res = r
    return SymTensor.from_array(res, x.dtype)


@reg(aten.index_put_.default)
def _index_put_(x, indices, values, accumulate=False):
    X = x.arr()
    key = _index_key(indices)
    V = to_arr(values)
    tgt = X[key]
    Vb = np.broadcast_to(V, tgt.shape)
    tmp = np.empty(tgt.shape, dtype=object)
    for idx in np.ndindex(*tgt.shape):
        tmp[idx] = e_cast(e_add(tgt[idx], Vb[idx]) if accumulate else Vb[idx], x.dtype)
    X[key] = tmp
    return x


@reg(aten.index_put.default)
def _index_put(x, indices, values, accumulate=False):
    return _index_put_(_clone(x), indices, values, accumulate)


@reg(aten.index_select.default)
def _index_select(x, dim, index):
    X = to_arr(x)
    ia = [int(concretize_scalar(v)) for v in to_arr(index).reshape(-1)]
    return SymTensor.from_array(np.take(X, ia, axis=dim), x.dtype)


@reg(aten.gather.default)
def _gather(x, dim, index, sparse_grad=False):
    X, I = to_arr(x), to_arr(index)
    out = np.empty(I.shape, dtype=object)
    for idx in np.ndindex(*I.shape):
        k = list(idx)
        k[dim] = int(concretize_scalar(I[idx]))
        out[idx] = X[tuple(k)]
    return SymTensor.from_array(out, x.dtype)


@reg(aten.masked_fill_.Scalar, aten.masked_fill_.Tensor)
def _masked_fill_(x, mask, value):
    X = x.arr()
    M = np.broadcast_to(to_arr(mask), X.shape)
    val = e_cast(conc(value), x.dtype)
    for idx in np.ndindex(*X.shape):
        X[idx] = e_where(M[idx], val, X[idx])
    return x


@reg(aten.masked_fill.Scalar, aten.masked_fill.Tensor)
def _masked_fill(x, mask, value):
    return _masked_fill_(_clone(x), mask, value)


@reg(aten.scatter_.value)
def _scatter_value_(x, dim, index, value):
    X = x.arr()
    I = to_arr(index)
    for idx in np.ndindex(*I.shape):
        k = list(idx)
        k[dim] = int(concretize_scalar(I[idx]))
        X[tuple(k)] = e_cast(conc(value), x.dtype)
    return x


@reg(aten.scatter_.src)
def _scatter_src_(x, dim, index, src):
    X = x.arr()
    I = to_arr(index)
    S = to_arr(src)
    for idx in np.ndindex(*I.shape):
        k = list(idx)
        k[dim] = int(concretize_scalar(I[idx]))
        X[tuple(k)] = e_cast(S[idx], x.dtype)
    return x


@reg(aten.scatter.value)
def _scatter_value(x, dim, index, value):
    return _scatter_value_(_clone(x), dim, index, value)


@reg(aten.scatter.src)
def _scatter_src(x, dim, index, src):
    return _scatter_src_(_clone(x), dim, index, src)


@reg(aten.nonzero.default)
def _nonzero(x):
    X = to_arr(x)
    B = np.empty(X.shape, dtype=object)
    for idx in np.ndindex(*X.shape):
        B[idx] = e_cast(X[idx], torch.bool)
    Bc = concretize_bool_array(B)
    nz = np.argwhere(Bc)
    out = np.empty(nz.shape, dtype=object)
    for idx in np.ndindex(*nz.shape):
        out[idx] = int(nz[idx])
    return SymTensor.from_array(out.reshape(nz.shape), torch.int64)


@reg(aten.isin.Tensor_Tensor)
def _isin(elements, test_elements, assume_unique=False, invert=False):
    E, T = to_arr(elements), to_arr(test_elements).reshape(-1)
    out = np.empty(E.shape, dtype=object)
    for idx in np.ndindex(*E.shape):
        acc = False
        for t in T:
            acc = e_or(acc, e_eq(E[idx], t))
        out[idx] = e_not(acc) if invert else acc
    return SymTensor.from_array(out, torch.bool)


@reg(aten.one_hot.default)
def _one_hot(x, num_classes=-1):
    X = to_arr(x)
    if num_classes < 0:
        raise EngineError("one_hot without num_classes")
    out = np.empty(X.shape + (num_classes,), dtype=object)
    for idx in np.ndindex(*X.shape):
        for c in range(num_classes):
            out[idx + (c,)] = e_cast(e_eq(X[idx], c), torch.int64)
    return SymTensor.from_array(out, torch.int64)


# in-place forms ------------------------------------------------------------------------------------------------------
@reg(aten.copy_.default)
def _copy_(dst, src, non_blocking=False):
    if not isinstance(dst, SymTensor):
        S = to_arr(src)
        if any(is_sym(v) for v in S.reshape(-1)):
            raise EngineError("symbolic value stored into a real tensor (outside SymMode?)")
        real = core.demote(src) if isinstance(src, SymTensor) else src
        with core._disable_current_modes():
            with torch.no_grad():
                dst.copy_(real)
        return dst
    D = dst.arr()
    S = np.broadcast_to(to_arr(src), D.shape)
    for idx in np.ndindex(*D.shape):
        D[idx] = e_cast(S[idx], dst.dtype)
    return dst


@reg(aten.fill_.Scalar, aten.fill_.Tensor)
def _fill_(x, value):
    X = x.arr()
    v = e_cast(conc(value), x.dtype)
    for idx in np.ndindex(*X.shape):
        X[idx] = v
    return x


HANDLERS[aten.zero_.default] = lambda x: _fill_(x, 0)


def inplace(fn):
    def h(x, *a, **k):
        r = fn(x, *a, **k)
        return _copy_(x, r)
    return h


for _name in ('add', 'sub', 'mul', 'div', 'bitwise_and', 'bitwise_or', 'clamp', 'clamp_min', 'clamp_max', 'floor_divide',
              'remainder', 'pow', 'masked_fill', 'logical_and', 'logical_or'):
    _ip = getattr(aten, _name + '_', None)
    _oop = getattr(aten, _name, None)
    if _ip is None or _oop is None:
        continue
    for ov in _ip.overloads():
        f_ip = getattr(_ip, ov)
        if f_ip in HANDLERS:
            continue
        f_oop = getattr(_oop, ov, None)
        if f_oop is not None and f_oop in HANDLERS:
            HANDLERS[f_ip] = inplace(HANDLERS[f_oop])
for _name in ('abs', 'neg', 'floor', 'ceil', 'round', 'exp', 'log', 'sqrt', 'sigmoid', 'tanh', 'reciprocal', 'trunc', 'sign', 'sgn'):
    _ip = getattr(aten, _name + '_', None)
    _oop = getattr(aten, _name, None)
    if _ip is not None and _oop is not None and _oop.default in HANDLERS:
        HANDLERS[_ip.default] = inplace(HANDLERS[_oop.default])


# factories relative to a symbolic tensor ---------------------------------------------------------------------------
def _full_like(x, value, dtype=None, shape=None):
    dt = dtype or x.dtype
    shp = tuple(x.shape) if shape is None else tuple(shape)
    out = np.empty(shp, dtype=object)
    out.fill(e_cast(conc(value), dt))
    return SymTensor.from_array(out, dt)


HANDLERS[aten.ones_like.default] = lambda x, **kw: _full_like(x, 1, kw.get('dtype'))
HANDLERS[aten.zeros_like.default] = lambda x, **kw: _full_like(x, 0, kw.get('dtype'))
HANDLERS[aten.empty_like.default] = lambda x, **kw: _full_like(x, 0, kw.get('dtype'))
HANDLERS[aten.full_like.default] = lambda x, v, **kw: _full_like(x, v, kw.get('dtype'))
HANDLERS[aten.new_zeros.default] = lambda x, size, **kw: _full_like(x, 0, kw.get('dtype'), size)
HANDLERS[aten.new_ones.default] = lambda x, size, **kw: _full_like(x, 1, kw.get('dtype'), size)
HANDLERS[aten.new_empty.default] = lambda x, size, **kw: _full_like(x, 0, kw.get('dtype'), size)
HANDLERS[aten.new_full.default] = lambda x, size, v, **kw: _full_like(x, v, kw.get('dtype'), size)
HANDLERS[aten.new_empty_strided.default] = lambda x, size, stride, **kw: _full_like(x, 0, kw.get('dtype'), size)


@reg(aten.scalar_tensor.default)
def _scalar_tensor(v, dtype=None, **kw):
    dt = dtype or torch.float32
    return SymTensor.from_array(np.array(e_cast(conc(v), dt), dtype=object), dt)


@reg(aten.full.default)
def _full(size, v, dtype=None, **kw):
    vv = conc(v)
    dt = dtype or ({'r': torch.float32, 'i': torch.int64, 'b': torch.bool}[kind_of(vv)])
    out = np.empty(tuple(size), dtype=object)
    out.fill(e_cast(vv, dt))
    return SymTensor.from_array(out, dt)


# scalar escapes ------------------------------------------------------------------------------------------------------
@reg(aten._local_scalar_dense.default)
def _item(x):
    v = scalar_of(x)
    v = concretize_scalar(v)
    if isinstance(v, Fraction):
        return float(v)
    return v


@reg(aten.is_nonzero.default)
def _is_nonzero(x):
    v = scalar_of(x)
    if not is_sym(v):
        return bool(v != 0)
    if kind_of(v) == 'b':
        return core.CUR.branch(v)
    return core.CUR.branch(e_ne(v, 0))


@reg(aten.equal.default)
def _equal(a, b):
    if tuple(a.shape) != tuple(b.shape):
        return False
    acc = True
    for u, v in zip(to_arr(a).reshape(-1), to_arr(b).reshape(-1)):
        acc = e_and(acc, e_eq(u, v))
    return core.CUR.branch(acc) if is_sym(acc) else bool(acc)


@reg(aten.isclose.default)
def _isclose(a, b, rtol=1e-05, atol=1e-08, equal_nan=False):
    rt, at = conc(float(rtol)), conc(float(atol))
    return ewise(lambda u, v: e_le(e_abs(e_sub(u, v)), e_add(at, e_mul(rt, e_abs(v)))), torch.bool, a, b)


# randomness stubs: fresh variables constrained by the support of the distribution --------------------------------
def _fresh_fill(x, name, lo=None, hi=None, lo_strict=True, hi_strict=True):
    X = x.arr()
    ex = core.CUR
    for idx in np.ndindex(*X.shape):
        v = ex.fresh(name, 'r')
        if lo is not None:
            ex.add_axiom(v > lo if lo_strict else v >= lo)
        if hi is not None:
            ex.add_axiom(v < hi if hi_strict else v <= hi)
        X[idx] = v
    return x


@reg(aten.exponential_.default)
def _exponential_(x, lambd=1, generator=None):
    return _fresh_fill(x, 'rnd_exp', lo=0)


@reg(aten.uniform_.default)
def _uniform_(x, from_=0, to=1, generator=None):
    return _fresh_fill(x, 'rnd_unif', lo=conc(float(from_)), hi=conc(float(to)), lo_strict=False)


@reg(aten.rand_like.default)
def _rand_like(x, **kw):
    return _uniform_(_full_like(x, 0, kw.get('dtype')))


@reg(aten.normal_.default)
def _normal_(x, mean=0, std=1, generator=None):
    return _fresh_fill(x, 'rnd_norm')
