"""symtorch core: symbolic tensors through __torch_dispatch__ + z3.

The real PLiNIO code is executed by CPython and the torch front end; what is replaced is the content of tensors: every
element is either an exact python number (bool / int / Fraction, +-inf as float) or a z3 term (Bool / Int / Real).
Data-dependent control flow (bool(), int(), boolean-mask indexing, argmax, sort, ...) forks through the Explorer, a DFS
with decision replay whose branch feasibility is decided by z3.

See /verif/DESIGN.md section 2.
"""
import itertools
import math
import os
import sys
import time
from fractions import Fraction

import numpy as np
import torch
import z3
from torch.utils._pytree import tree_flatten, tree_map
from torch.utils._python_dispatch import TorchDispatchMode, _disable_current_modes

aten = torch.ops.aten


# ---------------------------------------------------------------------------------------------------------------------
# exceptions (BaseException so that `except Exception` in the code under analysis cannot swallow them)
# ---------------------------------------------------------------------------------------------------------------------
class Infeasible(BaseException):
    """the current path condition is unsatisfiable"""


class Inconclusive(BaseException):
    """the solver answered unknown / timed out: the run cannot give a verdict"""


class EngineError(BaseException):
    """the engine met something it does not model (missing handler, symbolic value escaping into a real tensor...)"""


# ---------------------------------------------------------------------------------------------------------------------
# element algebra
# ---------------------------------------------------------------------------------------------------------------------
def is_sym(v):
    return isinstance(v, z3.ExprRef)


def kind_of(v):
    if is_sym(v):
        s = v.sort_kind()
        if s == z3.Z3_BOOL_SORT:
            return 'b'
        if s == z3.Z3_INT_SORT:
            return 'i'
        if s == z3.Z3_FLOATING_POINT_SORT:
            return 'f'
        return 'r'
    if isinstance(v, (bool, np.bool_)):
        return 'b'
    if isinstance(v, (int, np.integer)):
        return 'i'
    return 'r'


_ORDER = 'birf'
F32 = z3.Float32()
RNE = z3.RNE()


def join_kind(a, b):
    return _ORDER[max(_ORDER.index(kind_of(a)), _ORDER.index(kind_of(b)))]


def lift(v, kind='r'):
    """python or z3 value -> z3 value of the given kind"""
    if isinstance(v, SymScalar):
        v = v.t
    if kind == 'f':
        if is_sym(v):
            k = kind_of(v)
            if k == 'f':
                return v
            if k == 'b':
                return z3.If(v, z3.FPVal(1.0, F32), z3.FPVal(0.0, F32))
            if k == 'i':
                v = z3.ToReal(v)
            return z3.fpToFP(RNE, v, F32)
        if isinstance(v, float) and math.isinf(v):
            return z3.fpPlusInfinity(F32) if v > 0 else z3.fpMinusInfinity(F32)
        return z3.FPVal(float(np.float32(float(v))), F32)
    if is_sym(v):
        k = kind_of(v)
        if k == 'f':
            if kind == 'r':
                return z3.fpToReal(v)
            raise EngineError("float32 term used as bool/int")
        if kind == 'r':
            if k == 'i':
                return z3.ToReal(v)
            if k == 'b':
                return z3.If(v, z3.RealVal(1), z3.RealVal(0))
        elif kind == 'i':
            if k == 'b':
                return z3.If(v, z3.IntVal(1), z3.IntVal(0))
            if k == 'r':
                raise EngineError("real term used as integer")
        elif kind == 'b':
            if k != 'b':
                return v != 0
        return v
    if kind == 'b':
        return z3.BoolVal(bool(v))
    if kind == 'i':
        return z3.IntVal(int(v))
    if isinstance(v, float) and math.isinf(v):
        raise EngineError("infinite concrete value in a symbolic operation")
    f = Fraction(v)
    return z3.RealVal(str(f))


def conc(v):
    """normalise a concrete python / numpy number (floats become the exact Fraction of their value)"""
    if isinstance(v, SymScalar):
        return v.t
    if is_sym(v):
        return v
    if isinstance(v, (bool, int, Fraction)):
        return v
    if isinstance(v, float):
        if math.isnan(v):
            return _poison("NaN")      # a NaN computed by real torch inside the code under analysis
        if math.isinf(v):
            return v
        return Fraction(v)
    if isinstance(v, np.generic):
        return conc(v.item())
    if isinstance(v, torch.Tensor):
        return to_arr(v).reshape(-1)[0]
    raise TypeError(type(v))


def _isinf(v):
    return isinstance(v, float) and math.isinf(v)


def _num(k):
    return 'i' if k == 'b' else k


def _fp(a, b=None):
    return (is_sym(a) and kind_of(a) == 'f') or (b is not None and is_sym(b) and kind_of(b) == 'f')


def e_add(a, b):
    sa, sb = is_sym(a), is_sym(b)
    if not sa and not sb:
        return a + b
    if _fp(a, b):
        # exact IEEE identity that spares the solver a bit-blasted adder: (+0) + y = y, except that (+0) + (-0) = +0
        for x, y in ((a, b), (b, a)):
            if not is_sym(x) and not _isinf(x) and x == 0:
                y = lift(y, 'f')
                return z3.If(z3.fpIsZero(y), z3.FPVal(0.0, F32), y)
        return z3.fpAdd(RNE, lift(a, 'f'), lift(b, 'f'))
    if not sa and a == 0:
        return lift(b, _num(kind_of(b))) if kind_of(b) == 'b' else b
    if not sb and b == 0:
        return lift(a, _num(kind_of(a))) if kind_of(a) == 'b' else a
    k = _num(join_kind(a, b))
    return lift(a, k) + lift(b, k)


def e_neg(a):
    if not is_sym(a):
        return -a
    if _fp(a):
        return z3.fpNeg(a)
    return -lift(a, _num(kind_of(a)))


def e_sub(a, b):
    if not is_sym(a) and not is_sym(b):
        return a - b
    if _fp(a, b):
        return z3.fpSub(RNE, lift(a, 'f'), lift(b, 'f'))
    if not is_sym(b) and b == 0:
        return a
    k = _num(join_kind(a, b))
    return lift(a, k) - lift(b, k)


def e_mul(a, b):
    sa, sb = is_sym(a), is_sym(b)
    if not sa and not sb:
        return a * b
    if _fp(a, b):
        # exact IEEE identities for the constants 1 and +0 (no bit-blasted multiplier): y * 1 = y;  y * (+0) = NaN for NaN/inf, else a zero
        # with the sign of y
        for x, y in ((a, b), (b, a)):
            if not is_sym(x) and not _isinf(x):
                if x == 1:
                    return lift(y, 'f')
                if x == 0:
                    y = lift(y, 'f')
                    return z3.If(z3.Or(z3.fpIsNaN(y), z3.fpIsInf(y)), z3.fpNaN(F32),
                                 z3.If(z3.fpIsNegative(y), z3.FPVal(-0.0, F32), z3.FPVal(0.0, F32)))
        return z3.fpMul(RNE, lift(a, 'f'), lift(b, 'f'))
    for x, y in ((a, b), (b, a)):
        if not is_sym(x):
            if x == 0:
                return Fraction(0) if join_kind(a, b) == 'r' else 0
            if x == 1 and kind_of(x) != 'r':
                return lift(y, _num(kind_of(y))) if kind_of(y) == 'b' else y
            if x == 1:
                return lift(y, 'r')
    k = _num(join_kind(a, b))
    return lift(a, k) * lift(b, k)


def e_div(a, b):
    """true division; a symbolic denominator registers a division guard (den == 0 is 'poison')"""
    if _fp(a, b):
        return z3.fpDiv(RNE, lift(a, 'f'), lift(b, 'f'))
    if not is_sym(a) and not is_sym(b):
        if b == 0:
            if a == 0:
                return _poison("0/0")
            return math.inf if a > 0 else -math.inf
        if _isinf(b):
            return Fraction(0)
        return Fraction(a) / Fraction(b)
    if not is_sym(b):
        if b == 1:
            return lift(a, 'r')
        if _isinf(b):
            return Fraction(0)
        if b == 0:
            return _poison("x/0")
        return lift(a, 'r') * lift(Fraction(1) / Fraction(b), 'r')
    if not is_sym(a) and a == 0:
        _guard(b)
        return Fraction(0)
    _guard(b)
    return lift(a, 'r') / lift(b, 'r')


def _guard(den):
    ex = CUR
    if ex is not None:
        ex.guards.append(lift(den, 'r') == 0)


def _poison(why):
    """a division by a concrete zero inside the code under analysis: an always-firing guard and an arbitrary value"""
    ex = CUR
    if ex is None:
        raise EngineError("concrete " + why)
    if os.environ.get('VERIF_DEBUG_POISON'):
        import traceback
        sys.stderr.write('POISON ' + why + '\n' + ''.join(traceback.format_stack(limit=18)) + '\n')
    ex.guards.append(z3.BoolVal(True))
    return ex.fresh('poison', 'r')


def e_abs(a):
    if not is_sym(a):
        return abs(a)
    if _fp(a):
        return z3.fpAbs(a)
    a = lift(a, _num(kind_of(a)))
    return z3.If(a >= 0, a, -a)


_CMP = {
    'gt': lambda x, y: x > y, 'ge': lambda x, y: x >= y, 'lt': lambda x, y: x < y,
    'le': lambda x, y: x <= y, 'eq': lambda x, y: x == y, 'ne': lambda x, y: x != y,
}
_FLIP = {'gt': 'lt', 'lt': 'gt', 'ge': 'le', 'le': 'ge', 'eq': 'eq', 'ne': 'ne'}


def e_cmp(op):
    def f(a, b):
        if _isinf(a) and is_sym(b):
            pos = a > 0
            return {'gt': pos, 'ge': pos, 'lt': not pos, 'le': not pos, 'eq': False, 'ne': True}[op]
        if _isinf(b) and is_sym(a):
            pos = b > 0   # a (op) +-inf
            return {'gt': not pos, 'ge': not pos, 'lt': pos, 'le': pos, 'eq': False, 'ne': True}[op]
        if not is_sym(a) and not is_sym(b):
            return bool(_CMP[op](a, b))
        if _fp(a, b):
            x, y = lift(a, 'f'), lift(b, 'f')
            return {'gt': z3.fpGT, 'ge': z3.fpGEQ, 'lt': z3.fpLT, 'le': z3.fpLEQ, 'eq': z3.fpEQ, 'ne': z3.fpNEQ}[op](x, y)
        k = join_kind(a, b)
        if k == 'b':
            if op == 'eq':
                return lift(a, 'b') == lift(b, 'b')
            if op == 'ne':
                return lift(a, 'b') != lift(b, 'b')
            k = 'i'
        return _CMP[op](lift(a, k), lift(b, k))
    return f


e_gt, e_ge, e_lt, e_le, e_eq, e_ne = (e_cmp(o) for o in ('gt', 'ge', 'lt', 'le', 'eq', 'ne'))


def e_where(c, a, b):
    if not is_sym(c):
        return a if c else b
    if not is_sym(a) and not is_sym(b) and a == b and kind_of(a) == kind_of(b):
        return a
    k = join_kind(a, b)
    return z3.If(c, lift(a, k), lift(b, k))


def e_min(a, b):
    return e_where(e_le(a, b), a, b)


def e_max(a, b):
    return e_where(e_ge(a, b), a, b)


def _to_int(a):
    """floor of a real term as an Int term; valid monotonicity lemmas between the floor terms of the current path are added
    to the solver (sound consequences of the semantics of floor that spare z3 a branch-and-bound over the integer parts)"""
    t = z3.ToInt(a)
    ex = CUR
    if ex is not None and FLOOR_LEMMAS:
        key = a.get_id()
        if key not in ex.floor_seen:
            ex.floor_seen.add(key)
            for (a2, t2) in ex.floor_terms[-24:]:
                ex.add_axiom(z3.Implies(a2 <= a, t2 <= t))
                ex.add_axiom(z3.Implies(a <= a2, t <= t2))
            ex.floor_terms.append((a, t))
    return t


FLOOR_LEMMAS = False     # opt-in (C12, C13, C16): pairwise monotonicity lemmas between floor terms


def e_floor(a):
    if not is_sym(a):
        if _isinf(a):
            return a
        return Fraction(math.floor(a)) if kind_of(a) == 'r' else a
    if kind_of(a) == 'f':
        return z3.fpRoundToIntegral(z3.RTN(), a)
    if kind_of(a) != 'r':
        return a
    return z3.ToReal(_to_int(a))


def e_ceil(a):
    if not is_sym(a):
        if _isinf(a):
            return a
        return Fraction(math.ceil(a)) if kind_of(a) == 'r' else a
    if kind_of(a) == 'f':
        return z3.fpRoundToIntegral(z3.RTP(), a)
    if kind_of(a) != 'r':
        return a
    return -z3.ToReal(_to_int(-a))


def e_trunc(a):
    if not is_sym(a):
        return Fraction(math.trunc(a)) if kind_of(a) == 'r' else a
    if kind_of(a) != 'r':
        return a
    return z3.If(a >= 0, z3.ToReal(z3.ToInt(a)), -z3.ToReal(z3.ToInt(-a)))


def e_round(a):
    """round half to even (torch.round semantics), exact on reals"""
    if not is_sym(a):
        if kind_of(a) != 'r':
            return a
        return Fraction(round(Fraction(a)))
    if kind_of(a) == 'f':
        return z3.fpRoundToIntegral(RNE, a)
    if kind_of(a) != 'r':
        return a
    f = z3.ToInt(a)
    d = a - z3.ToReal(f)
    half = z3.Q(1, 2)
    return z3.ToReal(z3.If(d < half, f, z3.If(d > half, f + 1, z3.If(f % 2 == 0, f, f + 1))))


def e_floordiv(a, b):
    if not is_sym(a) and not is_sym(b):
        return Fraction(math.floor(Fraction(a) / Fraction(b))) if join_kind(a, b) == 'r' else a // b
    if join_kind(a, b) != 'r':
        # z3 integer division rounds towards -inf for positive divisors (euclidean); guard the sign of the divisor
        ai, bi = lift(a, 'i'), lift(b, 'i')
        if not is_sym(b):
            if b > 0:
                return ai / bi
            if b < 0:
                return (-ai) / (-bi)
            raise EngineError("integer division by concrete 0")
        _guard(b)
        return z3.If(bi > 0, ai / bi, (-ai) / (-bi))
    return e_floor(e_div(a, b))


def e_mod(a, b):
    """python / torch.remainder semantics: result has the sign of the divisor"""
    return e_sub(a, e_mul(b, e_floordiv(a, b)))


def _syn_integral(t):
    """sound syntactic test: the real-sorted term denotes an integer on every interpretation"""
    k = t.decl().kind()
    if z3.is_int(t):
        return True
    if z3.is_rational_value(t):
        return t.denominator_as_long() == 1
    if k == z3.Z3_OP_TO_REAL:
        return True
    if k == z3.Z3_OP_ITE:
        return _syn_integral(t.arg(1)) and _syn_integral(t.arg(2))
    if k in (z3.Z3_OP_ADD, z3.Z3_OP_SUB, z3.Z3_OP_MUL, z3.Z3_OP_UMINUS):
        return all(_syn_integral(c) for c in t.children())
    return False


def e_not_integral(v):
    """formula that is satisfiable iff v is not an integer (False when v is syntactically integral)"""
    if not is_sym(v):
        if _isinf(v):
            return True
        return Fraction(v).denominator != 1
    if kind_of(v) in ('i', 'b'):
        return False
    if kind_of(v) == 'f':
        return z3.Not(z3.fpEQ(v, z3.fpRoundToIntegral(z3.RTZ(), v)))
    if _syn_integral(v):
        return False
    return v != z3.ToReal(z3.ToInt(v))


def e_not(v):
    return (not v) if not is_sym(v) else z3.Not(lift(v, 'b'))


def e_and(a, b):
    if not is_sym(a):
        return lift(b, 'b') if (a and is_sym(b)) else (bool(b) if a else False)
    if not is_sym(b):
        return lift(a, 'b') if b else False
    return z3.And(lift(a, 'b'), lift(b, 'b'))


def e_or(a, b):
    if not is_sym(a):
        return True if a else (lift(b, 'b') if is_sym(b) else bool(b))
    if not is_sym(b):
        return True if b else lift(a, 'b')
    return z3.Or(lift(a, 'b'), lift(b, 'b'))


def e_pow_int(a, n):
    if not is_sym(a):
        if isinstance(n, int) or (isinstance(n, Fraction) and n.denominator == 1):
            n = int(n)
            if n >= 0:
                return a ** n
            return Fraction(1) / (Fraction(a) ** (-n))
        return conc(float(a) ** float(n))
    n = int(n)
    if n == 0:
        return Fraction(1)
    r = a
    for _ in range(abs(n) - 1):
        r = e_mul(r, a)
    return r if n > 0 else e_div(1, r)


# uninterpreted transcendental functions -------------------------------------------------------------------------------
_UF = {}


def _uf(name):
    if name not in _UF:
        _UF[name] = z3.Function(name, z3.RealSort(), z3.RealSort())
    return _UF[name]


def _uf_apply(name, v, positive=False, increasing=True, fix=None, domain_pos=False):
    """apply an uninterpreted strictly monotone function, instantiating its axioms on the terms that occur"""
    ex = CUR
    x = lift(v, 'r')
    key = (name, x.get_id())
    if key in ex.uf_cache:
        return ex.uf_cache[key]
    t = _uf(name)(x)
    ax = []
    if positive:
        ax.append(t > 0)
    if fix is not None:
        ax.append(z3.Implies(x == fix[0], t == fix[1]))
        # consequences of strict monotonicity around the fixed point
        if increasing:
            ax.append(z3.Implies(x > fix[0], t > fix[1]))
            ax.append(z3.Implies(x < fix[0], t < fix[1]))
    for (x2, t2) in ex.uf_terms.setdefault(name, []):
        if increasing:
            ax.append(z3.Implies(x2 < x, t2 < t))
            ax.append(z3.Implies(x < x2, t < t2))
        else:
            ax.append(z3.Implies(x2 < x, t2 > t))
            ax.append(z3.Implies(x < x2, t > t2))
        ax.append(z3.Implies(x == x2, t == t2))
    ex.uf_terms[name].append((x, t))
    for a in ax:
        ex.add_axiom(a)
    ex.uf_cache[key] = t
    return t


def e_exp(v):
    if not is_sym(v):
        if v == 0:
            return Fraction(1)
        if _isinf(v):
            return Fraction(0) if v < 0 else v
        return conc(float(np.float32(math.exp(float(v)))))
    return _uf_apply('exp', v, positive=True, fix=(0, 1))


def e_log(v):
    if not is_sym(v):
        if v == 1:
            return Fraction(0)
        return conc(float(np.float32(math.log(float(v)))))
    ex = CUR
    ex.guards.append(lift(v, 'r') <= 0)
    return _uf_apply('log', v, fix=(1, 0))


def e_sqrt(v):
    if not is_sym(v):
        return conc(float(np.float32(math.sqrt(float(v)))))
    ex = CUR
    x = lift(v, 'r')
    ex.guards.append(x < 0)
    t = _uf_apply('sqrt', v)
    ex.add_axiom(z3.Implies(x >= 0, z3.And(t >= 0, t * t == x)))
    return t


def e_sigmoid(v):
    if not is_sym(v):
        return conc(float(torch.sigmoid(torch.tensor(float(v), dtype=torch.float32))))
    t = _uf_apply('sigmoid', v, positive=True, fix=(0, Fraction(1, 2)))
    CUR.add_axiom(t < 1)
    return t


def e_tanh(v):
    if not is_sym(v):
        return conc(float(torch.tanh(torch.tensor(float(v), dtype=torch.float32))))
    t = _uf_apply('tanh', v, fix=(0, 0))
    CUR.add_axiom(z3.And(t < 1, t > -1))
    return t


def e_cast(v, dtype):
    if dtype is None:
        return v
    if dtype.is_floating_point:
        if not is_sym(v):
            if _isinf(v):
                return v
            return Fraction(int(v)) if isinstance(v, (bool, int, np.bool_, np.integer)) else v
        if kind_of(v) == 'f':
            return v
        return lift(v, 'r')
    if dtype == torch.bool:
        if not is_sym(v):
            return bool(v != 0)
        return lift(v, 'b')
    # integer dtypes
    if not is_sym(v):
        if isinstance(v, (bool, np.bool_)):
            return int(v)
        return int(v)  # trunc towards zero
    k = kind_of(v)
    if k == 'b':
        return lift(v, 'i')
    if k == 'i':
        return v
    # real -> int: truncation
    if _syn_integral(v):
        return z3.ToInt(v)
    return z3.If(v >= 0, z3.ToInt(v), -z3.ToInt(-v))


# ---------------------------------------------------------------------------------------------------------------------
# symbolic python scalars (returned by Tensor.item() on symbolic elements)
# ---------------------------------------------------------------------------------------------------------------------
class SymScalar:
    """a python-number look-alike around a z3 term; arithmetic stays symbolic, bool()/int()/float() fork"""
    __slots__ = ('t',)

    def __init__(self, t):
        self.t = t.t if isinstance(t, SymScalar) else t

    def __repr__(self):
        return f"SymScalar({self.t})"

    @staticmethod
    def _w(v):
        return SymScalar(v) if is_sym(v) else (float(v) if isinstance(v, Fraction) else v)

    @staticmethod
    def _u(o):
        if isinstance(o, SymScalar):
            return o.t
        if isinstance(o, torch.Tensor):
            return NotImplemented
        return conc(o)

    def _bin(self, o, f, swap=False):
        if isinstance(o, torch.Tensor):
            st = SymTensor.from_array(np.array(self.t, dtype=object), torch.float32 if kind_of(self.t) == 'r' else torch.int64)
            return NotImplemented if st is None else (f_t(f, o, st) if swap else f_t(f, st, o))
        u = self._u(o)
        return self._w(f(u, self.t) if swap else f(self.t, u))

    def __add__(self, o): return self._bin(o, e_add)
    def __radd__(self, o): return self._bin(o, e_add, True)
    def __sub__(self, o): return self._bin(o, e_sub)
    def __rsub__(self, o): return self._bin(o, e_sub, True)
    def __mul__(self, o): return self._bin(o, e_mul)
    def __rmul__(self, o): return self._bin(o, e_mul, True)
    def __truediv__(self, o): return self._bin(o, e_div)
    def __rtruediv__(self, o): return self._bin(o, e_div, True)
    def __floordiv__(self, o): return self._bin(o, e_floordiv)
    def __rfloordiv__(self, o): return self._bin(o, e_floordiv, True)
    def __mod__(self, o): return self._bin(o, e_mod)
    def __rmod__(self, o): return self._bin(o, e_mod, True)
    def __neg__(self): return self._w(e_neg(self.t))
    def __pos__(self): return self
    def __abs__(self): return self._w(e_abs(self.t))
    def __pow__(self, n): return self._w(e_pow_int(self.t, n))
    def __lt__(self, o): return self._bin(o, e_lt)
    def __le__(self, o): return self._bin(o, e_le)
    def __gt__(self, o): return self._bin(o, e_gt)
    def __ge__(self, o): return self._bin(o, e_ge)
    def __eq__(self, o): return self._bin(o, e_eq)
    def __ne__(self, o): return self._bin(o, e_ne)
    __hash__ = None

    def __bool__(self):
        t = self.t
        return CUR.branch(t if kind_of(t) == 'b' else e_ne(t, 0))

    def __int__(self):
        v = concretize_scalar(self.t)
        return int(v)

    __index__ = __int__

    def __float__(self):
        return float(concretize_scalar(self.t))

    def __floor__(self): return self._w(e_cast(e_floor(self.t), torch.int64))
    def __ceil__(self): return self._w(e_cast(e_ceil(self.t), torch.int64))
    def __round__(self, n=None): return self._w(e_cast(e_round(self.t), torch.int64))


def f_t(f, a, b):
    """apply element function f on two tensor-likes with torch type promotion"""
    if f in (e_lt, e_le, e_gt, e_ge, e_eq, e_ne):
        return ewise(f, torch.bool, a, b)
    od = torch.result_type(meta_of(a) if isinstance(a, torch.Tensor) else a, meta_of(b) if isinstance(b, torch.Tensor) else b)
    if f is e_div and not od.is_floating_point:
        od = torch.float32
    return ewise(f, od, a, b)


# ---------------------------------------------------------------------------------------------------------------------
# path exploration
# ---------------------------------------------------------------------------------------------------------------------
class Explorer:
    """DFS over the feasible paths of a harness function with decision replay (the function is re-run per path)."""

    def __init__(self, timeout_ms=30000, max_paths=None, seed=0):
        self.solver = z3.Solver()
        self.solver.set('timeout', timeout_ms)
        if seed:
            self.solver.set('random_seed', seed % (2 ** 30))
        self.timeout_ms = timeout_ms
        self.max_paths = max_paths
        self.n_queries = 0
        self.solver_s = 0.0
        self.n_paths = 0
        self.n_decisions = 0
        self.n_infeasible = 0
        self.global_assumptions = []
        self.reset_path()

    def reset_path(self):
        self.pc = []
        self.guards = []
        self.uf_terms = {}
        self.uf_cache = {}
        self.floor_terms = []
        self.floor_seen = set()
        self.axioms = []
        self.trace = []
        self.pos = 0
        self.fresh_counter = 0

    # ----- solver interface
    def add_axiom(self, a):
        self.axioms.append(a)
        self.solver.add(a)

    def assume(self, *cs):
        for c in cs:
            if is_sym(c):
                self.pc.append(c)
                self.solver.add(c)
            elif not c:
                raise Infeasible()

    def check(self, *extra, timeout_ms=None, want_model=True):
        """satisfiability of pc /\\ extra; returns ('sat'|'unsat'|'unknown', model|None)"""
        self.n_queries += 1
        t0 = time.time()
        self.solver.push()
        try:
            if timeout_ms is not None:
                self.solver.set('timeout', timeout_ms)
            for e in extra:
                if is_sym(e):
                    self.solver.add(e)
                elif not e:
                    return 'unsat', None
            r = self.solver.check()
            m = self.solver.model() if (r == z3.sat and want_model) else None
        finally:
            self.solver.pop()
            if timeout_ms is not None:
                self.solver.set('timeout', self.timeout_ms)
            self.solver_s += time.time() - t0
        return str(r), m

    def must(self, *extra, **kw):
        """like check but 'unknown' is an Inconclusive error"""
        r, m = self.check(*extra, **kw)
        if r == 'unknown':
            raise Inconclusive(f"solver unknown/timeout on query with {len(extra)} extra constraints")
        return r, m

    def valid(self, prop, **kw):
        """True iff prop holds on every model of the path condition; returns (bool, counter_model)"""
        if not is_sym(prop):
            if prop:
                return True, None
            r, m = self.must(**kw)
            return (r == 'unsat'), m
        r, m = self.must(z3.Not(prop), **kw)
        return (r == 'unsat'), m

    def fresh(self, name, kind='r'):
        mk = {'r': z3.Real, 'i': z3.Int, 'b': z3.Bool}[kind]
        self.fresh_counter += 1
        return mk(f"{name}!{self.fresh_counter}")

    # ----- branching
    def branch(self, cond):
        if isinstance(cond, SymScalar):
            cond = cond.t
        if not is_sym(cond):
            return bool(cond)
        cond = z3.simplify(lift(cond, 'b'))
        if z3.is_true(cond):
            return True
        if z3.is_false(cond):
            return False
        if self.pos < len(self.prefix):
            taken, alt = self.prefix[self.pos]
        else:
            rt, _ = self.must(cond, want_model=False)
            rf, _ = self.must(z3.Not(cond), want_model=False)
            if rt == 'sat':
                taken, alt = True, rf == 'sat'
            elif rf == 'sat':
                taken, alt = False, False
            else:
                raise Infeasible()
        self.trace.append([taken, alt])
        self.pos += 1
        self.n_decisions += 1
        c = cond if taken else z3.Not(cond)
        self.pc.append(c)
        self.solver.add(c)
        return taken

    def explore(self, fn):
        """generator of (path_condition, result) for every feasible path of fn(explorer)"""
        global CUR
        prefix = []
        while True:
            self.reset_path()
            self.prefix = prefix
            self.solver.push()
            for a in self.global_assumptions:
                self.solver.add(a)
            prev = CUR
            CUR = self
            try:
                res = fn(self)
                self.n_paths += 1
                yield list(self.pc), res
            except Infeasible:
                self.n_infeasible += 1
            finally:
                CUR = prev
                self.solver.pop()
            tr = self.trace
            while tr and not tr[-1][1]:
                tr.pop()
            if not tr:
                return
            tr[-1] = [not tr[-1][0], False]
            prefix = tr
            if self.max_paths is not None and self.n_paths >= self.max_paths:
                raise Inconclusive(f"path budget {self.max_paths} exhausted")

    def stats(self):
        return dict(paths=self.n_paths, decisions=self.n_decisions, queries=self.n_queries,
                    solver_s=round(self.solver_s, 3), infeasible=self.n_infeasible)


CUR = None  # current explorer


def cur():
    return CUR


def run_paths(fn, **kw):
    ex = Explorer(**kw)
    for pc, res in ex.explore(fn):
        yield ex, pc, res


def model_value(m, v):
    """python value of element v in model m"""
    if isinstance(v, SymScalar):
        v = v.t
    if not is_sym(v):
        return v
    if kind_of(v) == 'f':
        if z3.is_true(m.eval(z3.Or(z3.fpIsNaN(v), z3.fpIsInf(v)), model_completion=True)):
            return float('nan') if z3.is_true(m.eval(z3.fpIsNaN(v), model_completion=True)) else \
                (float('inf') if z3.is_true(m.eval(z3.fpIsPositive(v), model_completion=True)) else float('-inf'))
        v = z3.fpToReal(v)
    val = m.eval(v, model_completion=True)
    k = kind_of(val)
    if k == 'b':
        return z3.is_true(val)
    if k == 'i':
        return val.as_long()
    if z3.is_rational_value(val):
        return Fraction(val.numerator_as_long(), val.denominator_as_long())
    if z3.is_algebraic_value(val):
        a = val.approx(20)
        return Fraction(a.numerator_as_long(), a.denominator_as_long())
    raise EngineError(f"cannot read model value {val}")


# ---------------------------------------------------------------------------------------------------------------------
# the tensor
# ---------------------------------------------------------------------------------------------------------------------
class SymTensor(torch.Tensor):
    @staticmethod
    def __new__(cls, st, size, stride, offset, dtype, requires_grad=False):
        r = torch.Tensor._make_wrapper_subclass(
            cls, tuple(size), strides=tuple(stride), storage_offset=offset,
            dtype=dtype, device='cpu', requires_grad=requires_grad)
        r._st = st
        return r

    def __repr__(self):
        return f"SymTensor({self.arr().tolist()}, dtype={self.dtype})"

    def __deepcopy__(self, memo):
        out = SymTensor.from_array(self.arr().copy(), self.dtype)
        if self.requires_grad:
            out.requires_grad_(True)
        memo[id(self)] = out
        return out

    def arr(self):
        sz, sd, off = tuple(self.size()), tuple(self.stride()), self.storage_offset()
        isz = self._st.itemsize
        return np.lib.stride_tricks.as_strided(self._st[off:], shape=sz, strides=tuple(s * isz for s in sd), writeable=True)

    def has_sym(self):
        return any(is_sym(v) for v in self.arr().reshape(-1))

    @staticmethod
    def from_array(a, dtype):
        if not isinstance(a, np.ndarray) or a.dtype != object:
            b = np.empty(np.shape(a), dtype=object)
            if b.ndim == 0:
                b[()] = a if not isinstance(a, np.ndarray) else a.item()
            else:
                b[...] = a
            a = b
        st = np.empty(max(a.size, 0), dtype=object)
        if a.size:
            st[:] = a.reshape(-1)
        size = a.shape
        stride = []
        acc = 1
        for s in reversed(size):
            stride.append(acc)
            acc *= max(s, 1)
        return SymTensor(st, size, tuple(reversed(stride)), 0, dtype)

    @staticmethod
    def fresh(name, shape, dtype=torch.float32):
        shape = tuple(shape)
        n = int(np.prod(shape)) if len(shape) else 1
        mk = z3.Real if dtype.is_floating_point else (z3.Bool if dtype == torch.bool else z3.Int)
        a = np.empty(n, dtype=object)
        for i in range(n):
            a[i] = mk(f"{name}_{i}")
        return SymTensor.from_array(a.reshape(shape), dtype)

    @staticmethod
    def fresh_fp32(name, shape):
        """bit-precise float32 elements (z3 FloatingPoint theory)"""
        shape = tuple(shape)
        n = int(np.prod(shape)) if len(shape) else 1
        a = np.empty(n, dtype=object)
        for i in range(n):
            a[i] = z3.FP(f"{name}_{i}", F32)
        return SymTensor.from_array(a.reshape(shape), torch.float32)

    @staticmethod
    def of(t):
        """concrete torch tensor -> SymTensor holding the exact values"""
        if isinstance(t, SymTensor):
            return t
        return SymTensor.from_array(to_arr(t), t.dtype)

    def elems(self):
        return list(self.arr().reshape(-1))

    def __floor__(self):
        v = e_floor(to_arr(self).reshape(-1)[0])
        return SymScalar._w(e_cast(v, torch.int64)) if is_sym(v) else int(v)

    def __ceil__(self):
        v = e_ceil(to_arr(self).reshape(-1)[0])
        return SymScalar._w(e_cast(v, torch.int64)) if is_sym(v) else int(v)

    @classmethod
    def __torch_dispatch__(cls, func, types, args=(), kwargs=None):
        return dispatch(func, args, kwargs or {})

    @classmethod
    def __torch_function__(cls, func, types, args=(), kwargs=None):
        kwargs = kwargs or {}
        if func is torch.Tensor.item:
            a = to_arr(args[0]).reshape(-1)[0]
            if is_sym(a):
                if kind_of(a) == 'b':
                    return CUR.branch(a)
                return SymScalar(a)
        elif func is torch.Tensor.tolist:
            a = to_arr(args[0])
            if any(is_sym(v) for v in a.reshape(-1)):
                w = np.empty(a.shape, dtype=object)
                for idx in np.ndindex(*a.shape):
                    v = a[idx]
                    w[idx] = SymScalar(v) if is_sym(v) else (float(v) if isinstance(v, Fraction) else v)
                return w.tolist()
        elif func is torch.Tensor.__bool__:
            a = to_arr(args[0]).reshape(-1)[0]
            return CUR.branch(a if kind_of(a) == 'b' else e_ne(a, 0)) if is_sym(a) else bool(a)
        elif func in (torch.Tensor.__int__, torch.Tensor.__index__):
            a = to_arr(args[0]).reshape(-1)[0]
            return int(concretize_scalar(a))
        elif func is torch.Tensor.__float__:
            a = to_arr(args[0]).reshape(-1)[0]
            return float(concretize_scalar(a))
        elif func is torch.Tensor.numpy:
            a = to_arr(args[0])
            if any(is_sym(v) for v in a.reshape(-1)):
                raise EngineError(".numpy() on a symbolic tensor")
        elif func in _CLAMP_FUNCS:
            # clamp(x, number, 0-d tensor): the python arg parser would turn the tensor bound into a Scalar via item()
            a = list(args)
            kw = dict(kwargs)
            lo = kw.pop('min', a[1] if len(a) > 1 else None)
            hi = kw.pop('max', a[2] if len(a) > 2 else None)
            if isinstance(lo, (torch.Tensor, SymScalar)) or isinstance(hi, (torch.Tensor, SymScalar)):
                def tt(v):
                    if v is None or isinstance(v, torch.Tensor):
                        return v
                    v = conc(v)
                    return SymTensor.from_array(np.array(v, dtype=object), a[0].dtype)
                with torch._C.DisableTorchFunctionSubclass():
                    return torch.clamp(a[0], min=tt(lo), max=tt(hi), **kw)
        if any(isinstance(a, SymScalar) for a in tree_flatten((args, kwargs))[0]):
            args, kwargs = tree_map(_scalar_to_tensor, (args, kwargs))
        with torch._C.DisableTorchFunctionSubclass():
            return func(*args, **kwargs)


_CLAMP_FUNCS = (torch.clamp, torch.Tensor.clamp, torch.clip, torch.Tensor.clip)


def _scalar_to_tensor(a):
    if isinstance(a, SymScalar):
        return SymTensor.from_array(np.array(a.t, dtype=object), {'r': torch.float32, 'i': torch.int64, 'b': torch.bool}[kind_of(a.t)])
    return a


def to_arr(x):
    """anything tensor-like -> numpy object array of elements"""
    if isinstance(x, SymTensor):
        return x.arr()
    if isinstance(x, torch.Tensor):
        if x.is_meta:
            raise EngineError("meta tensor passed to to_arr")
        xd = x.detach()
        if xd.dtype in (torch.float16, torch.bfloat16):
            xd = xd.float()
        flat = xd.reshape(-1).tolist()
        out = np.empty(len(flat), dtype=object)
        for i, v in enumerate(flat):
            out[i] = conc(v)
        return out.reshape(tuple(x.shape))
    if isinstance(x, SymScalar):
        x = x.t
    a = np.empty((), dtype=object)
    a[()] = conc(x) if not is_sym(x) else x
    return a


def scalar_of(x):
    """single element of a 0-d / 1-element tensor-like"""
    return to_arr(x).reshape(-1)[0]


def ewise(fn, out_dtype, *xs):
    arrs = [to_arr(x) for x in xs]
    b = np.broadcast_arrays(*arrs) if len(arrs) > 1 else arrs
    out = np.empty(b[0].shape, dtype=object)
    of = out.reshape(-1)
    flats = [np.ascontiguousarray(a).reshape(-1) if a.size else a.reshape(-1) for a in b]
    for i in range(of.size):
        of[i] = e_cast(fn(*[f[i] for f in flats]), out_dtype)
    rng = _NARROW_INT.get(out_dtype)
    if rng is not None and CUR is not None:
        # arithmetic carried out in a narrow integer dtype wraps around in torch; here integers are mathematical: every symbolic result gets an
        # overflow guard (checked by the properties that talk about integer arithmetic, like the division guards)
        for v in of:
            if is_sym(v):
                CUR.guards.append(z3.Or(lift(v, 'i') > rng[1], lift(v, 'i') < rng[0]))
    return SymTensor.from_array(out, out_dtype)


_NARROW_INT = {torch.int32: (-2 ** 31, 2 ** 31 - 1), torch.int16: (-2 ** 15, 2 ** 15 - 1), torch.int8: (-2 ** 7, 2 ** 7 - 1), torch.uint8: (0, 255)}


def meta_of(x):
    if isinstance(x, SymTensor):
        n = len(x._st)
        base = torch.empty(max(n, 1), dtype=x.dtype, device='meta')
        return base.as_strided(tuple(x.size()), tuple(x.stride()), x.storage_offset())
    if isinstance(x, torch.Tensor):
        return x.to('meta') if not x.is_meta else x
    if isinstance(x, SymScalar):
        return 0.5 if kind_of(x.t) == 'r' else (1 if kind_of(x.t) == 'i' else True)
    return x


def is_view_op(func):
    s = func._schema
    if not s.returns:
        return False
    ai = s.returns[0].alias_info
    return ai is not None and not ai.is_write


def is_inplace_op(func):
    s = func._schema
    ai = s.arguments[0].alias_info if s.arguments else None
    return ai is not None and ai.is_write


def concretize_bool_array(a):
    """fork until every element of the boolean object array is concrete"""
    out = np.empty(a.shape, dtype=bool)
    for idx in np.ndindex(*a.shape):
        v = a[idx]
        out[idx] = CUR.branch(v) if is_sym(v) else bool(v)
    return out


def concretize_scalar(v, limit=4096):
    """fork on the value of a symbolic scalar (enumeration by the solver; meant for bounded integers)"""
    if isinstance(v, SymScalar):
        v = v.t
    if not is_sym(v):
        return v
    if kind_of(v) == 'b':
        return CUR.branch(v)
    v = z3.simplify(v)
    if z3.is_int_value(v):
        return v.as_long()
    if z3.is_rational_value(v):
        return Fraction(v.numerator_as_long(), v.denominator_as_long())
    ex = CUR
    if kind_of(v) != 'i':
        # integer-valued real (e.g. the float sum of a 0/1 mask): enumerate it as an integer
        iv = z3.ToInt(v)
        r0, _ = ex.must(v != z3.ToReal(iv), want_model=False)
        if r0 == 'unsat':
            return Fraction(concretize_scalar(z3.simplify(iv), limit))
        r, m = ex.must()
        if r != 'sat':
            raise Infeasible()
        val = m.eval(v, model_completion=True)
        r2, _ = ex.must(v != val, want_model=False)
        if r2 == 'unsat':
            return model_value(m, v)
        raise EngineError(f"cannot concretise a symbolic real with more than one value: {v}")
    n = 0
    while True:
        n += 1
        if n > limit:
            raise Inconclusive("concretize_scalar: domain too large")
        r, m = ex.must()
        if r != 'sat':
            raise Infeasible()
        # deterministic choice (smallest feasible value) so that decision replay proposes the same sequence
        val = _smallest_int(ex, v, m.eval(v, model_completion=True).as_long())
        if ex.branch(v == val):
            return val


def _smallest_int(ex, v, ub):
    """smallest feasible integer value of v under the current path condition (binary search below a feasible ub)"""
    r, _ = ex.must(v < ub, want_model=False)
    if r == 'unsat':
        return ub
    lo = None
    hi = ub
    step = 1
    # exponential search for an infeasible lower bound
    while True:
        cand = hi - step
        r, m = ex.must(v <= cand)
        if r == 'unsat':
            lo = cand
            break
        hi = m.eval(v, model_completion=True).as_long()
        step *= 2
        if step > 2 ** 40:
            raise Inconclusive("unbounded integer concretisation")
    # invariant: v<=lo infeasible, v==hi feasible (hi from model) ; find min in (lo, hi]
    while hi - lo > 1:
        mid = (lo + hi) // 2
        r, m = ex.must(v <= mid, v > lo)
        if r == 'sat':
            hi = m.eval(v, model_completion=True).as_long()
        else:
            lo = mid
    return hi


# ---------------------------------------------------------------------------------------------------------------------
# dispatch
# ---------------------------------------------------------------------------------------------------------------------
HANDLERS = {}
USED_HANDLERS = {}      # func -> count (handler validation / evidence)
CONCRETE_FIRST = True
_NO_FALLBACK = None


def reg(*ops):
    def d(f):
        for o in ops:
            HANDLERS[o] = f
        return f
    return d


def _all_concrete(syms):
    for a in syms:
        st = a._st
        for v in (a.arr().reshape(-1) if a.numel() < len(st) else st):
            if isinstance(v, z3.ExprRef):
                return False
    return True


def dispatch(func, args, kwargs):
    global _NO_FALLBACK
    if _NO_FALLBACK is None:
        _NO_FALLBACK = {aten._local_scalar_dense.default, aten.is_nonzero.default, aten.detach.default,
                        aten.alias.default, aten.exponential_.default, aten.uniform_.default, aten.rand_like.default,
                        aten.normal_.default, aten.bernoulli_.float, aten.rand.default, aten.randn.default}
    flat = tree_flatten((args, kwargs))[0]
    syms = [a for a in flat if isinstance(a, SymTensor)]
    has_scalar = any(isinstance(a, SymScalar) for a in flat)
    view = is_view_op(func)
    if CONCRETE_FIRST and not view and not has_scalar and func not in _NO_FALLBACK and syms and _all_concrete(syms):
        return concrete_fallback(func, args, kwargs)
    h = HANDLERS.get(func)
    if h is not None:
        USED_HANDLERS[func] = USED_HANDLERS.get(func, 0) + 1
        return h(*args, **kwargs)
    if view:
        margs = tree_map(meta_of, args)
        mkw = tree_map(meta_of, kwargs)
        with _disable_current_modes():
            out = func(*margs, **mkw)
        base = syms[0]

        def mk(o):
            return SymTensor(base._st, o.size(), o.stride(), o.storage_offset(), o.dtype)
        if isinstance(out, (list, tuple)):
            return type(out)(mk(o) for o in out)
        return mk(out)
    if syms and not has_scalar and _all_concrete(syms):
        return concrete_fallback(func, args, kwargs)
    raise EngineError(f"symtorch: no handler for {func}")


def demote(a):
    """concrete-valued SymTensor -> real torch tensor"""
    if isinstance(a, SymTensor):
        arr = a.arr()
        if a.dtype == torch.bool:
            return torch.tensor(np.array(arr.tolist(), dtype=bool).reshape(arr.shape))
        if a.dtype.is_floating_point:
            return torch.tensor(np.array([float(v) for v in arr.reshape(-1)], dtype=np.float64).reshape(arr.shape)).to(a.dtype)
        return torch.tensor(np.array([int(v) for v in arr.reshape(-1)], dtype=np.int64).reshape(arr.shape)).to(a.dtype)
    return a


def concrete_fallback(func, args, kwargs):
    """all operands concrete: run the operator in real torch (float32-faithful constants) and lift the result"""
    if is_inplace_op(func):
        dst = args[0]
        real_args = tree_map(demote, args)
        real_kwargs = tree_map(demote, kwargs)
        with _disable_current_modes():
            func(*real_args, **real_kwargs)
        if isinstance(dst, SymTensor):
            D = dst.arr()
            S = to_arr(real_args[0])
            for idx in np.ndindex(*D.shape):
                D[idx] = S[idx]
        return dst
    real_args = tree_map(demote, args)
    real_kwargs = tree_map(demote, kwargs)
    with _disable_current_modes():
        out = func(*real_args, **real_kwargs)
        if 'empty' in str(func):
            # uninitialised memory (new_empty / new_empty_strided / empty_like ... used by autograd to allocate buffers): its content is garbage,
            # sometimes NaN, which would be lifted as a poison value; a deterministic zero fill is a valid choice of "any content"
            out = tree_map(lambda o: o.zero_() if isinstance(o, torch.Tensor) else o, out)

    def promote(o):
        return SymTensor.from_array(to_arr(o), o.dtype) if isinstance(o, torch.Tensor) else o
    return tree_map(promote, out)


FACTORIES = None


class SymMode(TorchDispatchMode):
    """while active, factory calls return (concrete-valued) SymTensors, so that the code under analysis can later
    store symbolic values into tensors it allocated itself"""

    def __init__(self, max_numel=8192):
        super().__init__()
        self.max_numel = max_numel

    def __torch_dispatch__(self, func, types, args=(), kwargs=None):
        global FACTORIES
        if FACTORIES is None:
            FACTORIES = {aten.zeros.default, aten.ones.default, aten.empty.memory_format, aten.full.default,
                         aten.zeros_like.default, aten.ones_like.default, aten.empty_like.default,
                         aten.lift_fresh.default, aten.scalar_tensor.default, aten.new_zeros.default,
                         aten.new_ones.default, aten.new_empty.default, aten.new_full.default, aten.full_like.default,
                         aten.eye.default, aten.arange.default, aten.arange.start, aten.arange.start_step,
                         aten.empty_strided.default, aten._to_copy.default, aten.clone.default,
                         aten.lift_fresh_copy.default}
        kwargs = kwargs or {}
        flat = tree_flatten((args, kwargs))[0]
        if any(isinstance(x, (SymTensor, SymScalar)) for x in flat):
            return dispatch(func, args, kwargs)
        out = func(*args, **kwargs)
        if func in FACTORIES and isinstance(out, torch.Tensor) and out.device.type == 'cpu' \
                and out.numel() <= self.max_numel and out.dtype in (torch.float32, torch.float64, torch.int64, torch.int32, torch.bool) \
                and func not in (aten._to_copy.default, aten.clone.default):
            if func in (aten.empty.memory_format, aten.empty_like.default, aten.new_empty.default, aten.empty_strided.default):
                out = torch.zeros_like(out)
            return SymTensor.from_array(to_arr(out), out.dtype)
        return out


# ---------------------------------------------------------------------------------------------------------------------
# helpers for harnesses
# ---------------------------------------------------------------------------------------------------------------------
def symbolify_param(module, name, sym, requires_grad=None):
    """replace module.<name> (parameter or buffer) by a SymTensor without going through nn.Module type checks"""
    if name in module._parameters:
        old = module._parameters[name]
        rg = old.requires_grad if requires_grad is None else requires_grad
        if rg:
            sym.requires_grad_(True)
        module._parameters[name] = sym
    elif name in module._buffers:
        module._buffers[name] = sym
    else:
        raise KeyError(name)
    return sym


class swapped_params:
    """context manager: temporarily replace parameters/buffers by SymTensors, restoring the originals afterwards"""

    def __init__(self, pairs):
        self.pairs = pairs   # list of (module, name, symtensor)
        self.saved = []

    def __enter__(self):
        for mod, name, sym in self.pairs:
            d = mod._parameters if name in mod._parameters else mod._buffers
            self.saved.append((d, name, d[name]))
            if d is mod._parameters and d[name] is not None and d[name].requires_grad:
                sym.requires_grad_(True)
            old = d[name]
            d[name] = sym
            # tensors of the same module that share the storage of the replaced one (x.detach(), x.data, views of the
            # whole) are what an in-place write to the real parameter would also change: alias them to the symbolic value
            if isinstance(old, torch.Tensor) and old.numel() > 0:
                for d2 in (mod._parameters, mod._buffers, mod.__dict__):
                    for n2, t2 in list(d2.items()):
                        if (d2 is d and n2 == name) or not isinstance(t2, torch.Tensor) or isinstance(t2, SymTensor):
                            continue
                        if t2 is old or (t2.shape == old.shape and t2.numel() > 0 and t2.data_ptr() == old.data_ptr()):
                            self.saved.append((d2, n2, t2))
                            d2[n2] = sym if t2.requires_grad else sym.detach()
        return self

    def __exit__(self, *a):
        for d, name, old in self.saved:
            d[name] = old
        return False


class written_params:
    """context manager modelling an UPDATE of parameters that already have a history: each parameter is first replaced by a
    concrete-valued SymTensor carrier holding its current values (same values, a Parameter object of its own); `prefix()` then runs
    whatever history the caller wants on those values (a forward pass, an export, ...); finally the symbolic value is written INTO the
    carrier through the chosen channel, so that object identity and the autograd version counter behave as they do for the user:
        how = 'data'    carrier.data.copy_(sym)      (checkpoint loaders, some optimizers: the version counter does not move)
        how = 'nograd'  with torch.no_grad(): carrier.copy_(sym)     (torch.optim: the version counter moves)
    A plain swap (`swapped_params`) would present a fresh object with a fresh counter and hide state cached per object/version."""

    def __init__(self, pairs, prefix=None, how='data'):
        self.pairs, self.prefix, self.how = pairs, prefix, how
        self.saved = []

    def __enter__(self):
        carriers = []
        for mod, name, sym in self.pairs:
            d = mod._parameters if name in mod._parameters else mod._buffers
            old = d[name]
            self.saved.append((d, name, old))
            c = SymTensor.of(old.detach())
            if d is mod._parameters:
                c = torch.nn.Parameter(c, requires_grad=old.requires_grad)
            d[name] = c
            carriers.append((c, sym))
            # tensors of the same module that share the storage of the replaced one keep sharing it (see swapped_params)
            if isinstance(old, torch.Tensor) and old.numel() > 0:
                for d2 in (mod._parameters, mod._buffers, mod.__dict__):
                    for n2, t2 in list(d2.items()):
                        if (d2 is d and n2 == name) or not isinstance(t2, torch.Tensor) or isinstance(t2, SymTensor):
                            continue
                        if t2 is old or (t2.shape == old.shape and t2.numel() > 0 and t2.data_ptr() == old.data_ptr()):
                            self.saved.append((d2, n2, t2))
                            d2[n2] = c if t2.requires_grad else c.detach()
        if self.prefix is not None:
            self.prefix()
        for c, sym in carriers:
            if self.how == 'data':
                c.data.copy_(sym)
            else:
                with torch.no_grad():
                    c.copy_(sym)
        return self

    def __exit__(self, *a):
        for d, name, old in self.saved:
            d[name] = old
        return False


def eq_terms(a, b):
    """z3 formula: element-wise equality of two tensor-likes (shapes must agree) - list of per-element equalities"""
    A, B = to_arr(a), to_arr(b)
    if A.shape != B.shape:
        raise ValueError(f"shape mismatch {A.shape} vs {B.shape}")
    out = []
    for u, v in zip(A.reshape(-1), B.reshape(-1)):
        out.append(e_eq(u, v))
    return out


def any_differs(a, b):
    """formula that is satisfiable iff the two tensors differ in some element (False if syntactically equal)"""
    eqs = eq_terms(a, b)
    ds = []
    for e in eqs:
        if is_sym(e):
            e = z3.simplify(e)
            if z3.is_true(e):
                continue
            ds.append(z3.Not(e))
        elif not e:
            return True
    if not ds:
        return False
    return z3.Or(ds) if len(ds) > 1 else ds[0]
